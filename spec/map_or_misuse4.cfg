\* MISUSE Map<K,Orswot>, nested half, second shape: the top clocks of the two maps are ordered while the entry clocks of the key are concurrent;
\* only validate_merge is judged
CONSTANTS
  DescName = "or"
  NReps = 3
  NKeys = 2
  NMembers = 2
  NVals = 1
  MaxOps = 6
  Regime = "fifo"
  UseMerge = FALSE
  UseSnap = FALSE
  UseDup = FALSE
  RmVia = FALSE
  DumpReset = FALSE
  ScriptName = "nested_reused_dot_ordered"
  Reps <- MCReps
  Actors <- MCActors
  Keys <- MCKeys
  Members <- MCMembers
  MvVals <- MCVals
  ActorOf <- MCActorOfShared
  ValDesc <- MCDesc
INIT ScriptInit
NEXT Next
VIEW View
ACTION_CONSTRAINT Edge
INVARIANTS TypeOK
CHECK_DEADLOCK FALSE
