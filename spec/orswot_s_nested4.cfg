\* scenario: replica 4 (clock over four actors) holds two pending removes with nested contexts {A:2} -> {x}, {A:2,B:1} -> {y};
\* then every FIFO delivery and every merge among the four replicas (no further edits)
CONSTANTS
  NReps = 4
  NMembers = 3
  MaxOps = 7
  Regime = "fifo"
  UseMerge = TRUE
  UseSnap = FALSE
  UseDup = FALSE
  DumpReset = FALSE
  CmdSet = {"add"}
  ScriptName = "nested_pending_four_actors"
  Reps <- MCReps
  Actors <- MCActors
  Members <- MCMembers
  ActorOf <- MCActorOf
INIT ScriptInit
NEXT Next
VIEW View
ACTION_CONSTRAINT Edge
INVARIANTS TypeOK RefinesA Converge MergeLaws Hybrid DupNoop StaleNoop ValidateOpOK ValidateMergeSym ValidateMergeOKorKF CtxOK FreshDot
CHECK_DEADLOCK FALSE
