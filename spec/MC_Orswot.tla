----------------------------- MODULE MC_Orswot -----------------------------
(***************************************************************************)
(* Bounded instances of SysOrswot for TLC, and the dump that binds the     *)
(* specification to the implementation: every transition TLC generates is  *)
(* printed as one JSON line (path from Init, layer-B post-state of the      *)
(* replica that moved, layer-A expectations, model verdicts of the         *)
(* per-state obligations); the Rust harness replays each path on the real  *)
(* code and compares.                                                      *)
(***************************************************************************)
EXTENDS SysOrswot, TLC, Json, SequencesExt

CONSTANTS NReps, NMembers, DumpReset

MCReps == 1..NReps
MCActors == 1..NReps
MCMembers == 1..NMembers
MCActorOf == [r \in MCReps |-> r]
\* misuse: replicas 1 and 2 both edit through actor 1
MCActorOfShared == [r \in MCReps |-> IF r <= 2 THEN 1 ELSE r]

View == coreView

\* ---- scenario scripts (INIT ScriptInit) ------------------------------------------
CONSTANT ScriptName
A(m) == [c |-> "add", m |-> m, ms |-> NoSet]
R(m) == [c |-> "rm", m |-> m, ms |-> NoSet]
RA(ms) == [c |-> "rmall", m |-> 0, ms |-> ms]
Script ==
  CASE ScriptName = "none" -> <<>>
    \* two removes with the SAME context (read() of the set) for different members, issued by a third party
    [] ScriptName = "same_ctx_removes" ->
         << <<"gen", 1, A(1)>>, <<"gen", 1, A(2)>>, <<"dlv", 2, 1>>, <<"dlv", 2, 2>>,
            <<"gen", 2, RA({1})>>, <<"gen", 2, RA({2})>> >>
    \* the same, removes issued in the opposite order: at a replica that has only the FIRST add, the remove of the
    \* absent member becomes pending first and the remove of the present member then meets an existing pending entry
    [] ScriptName = "same_ctx_removes_rev" ->
         << <<"gen", 1, A(1)>>, <<"gen", 1, A(2)>>, <<"dlv", 2, 1>>, <<"dlv", 2, 2>>,
            <<"gen", 2, RA({2})>>, <<"gen", 2, RA({1})>> >>
    \* KF-18a shape: two pending removes (of DIFFERENT members) whose contexts collapse after a reset (4 actors)
    [] ScriptName = "collapsing_pending" ->
         << <<"gen", 1, [c |-> "addall", m |-> 0, ms |-> {1, 2}]>>, <<"dlv", 2, 1>>, <<"gen", 2, R(1)>>,
            <<"dlv", 3, 1>>, <<"gen", 3, A(2)>>, <<"gen", 3, R(2)>>, <<"dlv", 4, 2>>, <<"dlv", 4, 3>> >>
    \* replica 4 knows four actors and holds two pending removes of different members whose contexts, {A:2} and {A:2,B:1},
    \* differ only in a dot it has seen; both wait for the same add (A:2).  Replica 3 has not seen that add either, so
    \* merges between 3 and 4 leave both removes pending (anything that normalises or re-keys the pending table shows here)
    [] ScriptName = "nested_pending_four_actors" ->
         << <<"gen", 1, A(1)>>, <<"gen", 1, [c |-> "addall", m |-> 0, ms |-> {1, 2}]>>, <<"dlv", 2, 1>>, <<"dlv", 2, 2>>,
            <<"gen", 2, A(2)>>, <<"gen", 2, R(1)>>, <<"gen", 2, R(2)>>, <<"gen", 3, A(3)>>, <<"gen", 4, A(3)>>,
            <<"dlv", 4, 1>>, <<"dlv", 4, 3>>, <<"dlv", 4, 4>>, <<"dlv", 4, 5>>, <<"dlv", 4, 6>> >>
    \* four actors witness the same member concurrently (shapes that need four distinct actors on one element)
    [] ScriptName = "four_adders" ->
         << <<"gen", 1, A(1)>>, <<"gen", 2, A(1)>>, <<"gen", 3, A(1)>>, <<"gen", 4, A(1)>> >>
ScriptInit == InitAfter(Script)

ProjB(s) == [clock |-> s.clock, entries |-> s.entries, deferred |-> s.deferred]

Who == LET a == Last(hist') IN IF a[1] = "save" THEN 0 ELSE a[2]

\* layer-A expectations for the replica that moved
ExpA(r) ==
  LET K == know'[r] IN
  [val   |-> ExpSet(ops', K),
   clock |-> ExpClock(ops', K),
   wit   |-> [m \in Members |-> ExpWit(ops', K, m)],
   pend  |-> ExpPending(ops', K)]

\* reset_remove(c) of the state the replica is in, for every clock of the bounded
\* universe.  OrReset *is* the declarative reading (drop every covered dot, prune
\* what becomes empty, join pending removes whose contexts coincide); the FIFO
\* configs additionally check OrReset(st[r], c) = ExpAfterReset(ops, know[r], c).
CUSeq == SetToSeq(ClockU)

Line ==
  LET r == Who IN
  [h   |-> hist',
   who |-> r,
   B   |-> ProjB(st'[r]),
   A   |-> ExpA(r),
   op  |-> IF Last(hist')[1] = "gen" THEN <<ops'[Len(ops')].op>> ELSE <<>>,
   vop |-> [q \in Reps |-> [i \in 1..Len(ops') |-> ExpValidate(ops', know'[q], i)]],
   vm  |-> [q \in Reps |-> OrValidateMerge(st'[r], st'[q])],
   vmA |-> [q \in Reps |-> IF ActorOf = MCActorOf THEN "Ok" ELSE ExpVM(st'[r], st'[q])],
   rs  |-> IF DumpReset
           THEN [i \in 1..Len(CUSeq) |-> <<CUSeq[i], ProjB(OrReset(st'[r], CUSeq[i]))>>]
           ELSE <<>>]

Edge == Who = 0 \/ PrintT(<<"E", ToJson(Line)>>)
=============================================================================
