\* scenario List: an identifier with a foreign outer marker (b.2 above c.1), then one more op and deliveries in per-actor (FIFO)
\* order only -- List's reads need causal delivery, validate_op does not: only validate_op is judged (harness flag --vop-only)
CONSTANTS
  Kind = "list"
  NReps = 3
  MaxOps = 6
  Regime = "fifo"
  UseMerge = FALSE
  UseSnap = FALSE
  UseDup = FALSE
  DupElems = FALSE
  BeyondLen = 0
  ScriptName = "foreign_outer_marker"
  Reps <- MCReps
  Actors <- MCActors
  ActorOf <- MCActorOf
INIT ScriptInit
NEXT Next
VIEW View
ACTION_CONSTRAINT Edge
INVARIANTS TypeOK ValidateOpOK
CHECK_DEADLOCK FALSE
