\* Map<K,MVReg> qreset3: 3 replicas, 1 key, 3 API ops, FIFO delivery (pending key removes with multi-actor contexts), reset_remove with every clock of [Actors -> 0..2] in every state
CONSTANTS
  DescName = "mv"
  NReps = 3
  NKeys = 1
  NMembers = 1
  NVals = 1
  MaxOps = 3
  Regime = "fifo"
  UseMerge = FALSE
  UseSnap = FALSE
  UseDup = FALSE
  RmVia = FALSE
  DumpReset = TRUE
  ScriptName = "none"
  Reps <- MCReps
  Actors <- MCActors
  Keys <- MCKeys
  Members <- MCMembers
  MvVals <- MCVals
  ActorOf <- MCActorOf
  ValDesc <- MCDesc
INIT Init
NEXT Next
VIEW View
ACTION_CONSTRAINT Edge
INVARIANTS TypeOK KeysOK TopCtxOK FreshDot
CHECK_DEADLOCK FALSE
