\* MerkleReg: 2 replicas, 3 writes on the heads read, any arrival order, merges and one saved (stale) snapshot merged later
CONSTANTS
  NReps = 2
  NVals = 1
  MaxOps = 3
  Regime = "any"
  UseMerge = TRUE
  UseSnap = TRUE
  UseDup = FALSE
  ChildMode = "heads"
  Reps <- MCReps
  Vals <- MCVals
  ActorOf <- MCActorOf
INIT Init
NEXT Next
VIEW View
ACTION_CONSTRAINT Edge
INVARIANTS TypeOK RefinesA MergeLaws Hybrid DupNoop StaleNoop ValidateOpOK
PROPERTY WriteReplacesHeads
CHECK_DEADLOCK FALSE
