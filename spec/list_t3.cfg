\* List: 3 replicas, 4 ops, causal delivery
CONSTANTS
  Kind = "list"
  NReps = 3
  MaxOps = 4
  Regime = "causal"
  UseMerge = FALSE
  UseSnap = FALSE
  UseDup = FALSE
  BeyondLen = 0
  Reps <- MCReps
  Actors <- MCActors
  ActorOf <- MCActorOf
INIT Init
NEXT Next
VIEW View
ACTION_CONSTRAINT Edge
INVARIANTS TypeOK UniqueIds RefinesA EachOnce Converge ClockOK DupNoop ValidateOpOK MergeLaws Hybrid
PROPERTY IndexSemantics
CHECK_DEADLOCK FALSE
