\* Map<K,Map<K,Map<K,MVReg>>> q: three nesting levels, 2 replicas, 1 key per level, 3 API ops, causal delivery, merges
CONSTANTS
  DescName = "map_map_mv"
  NReps = 2
  NKeys = 1
  NMembers = 1
  NVals = 1
  MaxOps = 3
  Regime = "causal"
  UseMerge = TRUE
  UseSnap = FALSE
  UseDup = FALSE
  RmVia = FALSE
  DumpReset = FALSE
  ScriptName = "none"
  Reps <- MCReps
  Actors <- MCActors
  Keys <- MCKeys
  Members <- MCMembers
  MvVals <- MCVals
  ActorOf <- MCActorOf
  ValDesc <- MCDesc
INIT Init
NEXT Next
VIEW View
ACTION_CONSTRAINT Edge
INVARIANTS TypeOK KeysOK TopCtxOK FreshDot
CHECK_DEADLOCK FALSE
