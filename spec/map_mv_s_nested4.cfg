\* scenario Map<K,MVReg>: replica 4 (clock over four actors) holds two pending key removes with nested contexts; then every FIFO delivery and merge among the four replicas (no further edits)
CONSTANTS
  DescName = "mv"
  NReps = 4
  NKeys = 3
  NMembers = 1
  NVals = 1
  MaxOps = 7
  Regime = "fifo"
  UseMerge = TRUE
  UseSnap = FALSE
  UseDup = FALSE
  RmVia = TRUE
  DumpReset = FALSE
  ScriptName = "nested_pending_four_actors"
  Reps <- MCReps
  Actors <- MCActors
  Keys <- MCKeys
  Members <- MCMembers
  MvVals <- MCVals
  ActorOf <- MCActorOf
  ValDesc <- MCDesc
INIT ScriptInit
NEXT Next
VIEW View
ACTION_CONSTRAINT Edge
INVARIANTS TypeOK KeysOK TopCtxOK FreshDot
CHECK_DEADLOCK FALSE
