\* all ordered pairs of clocks over 4 actors x counters 0..1 (16 clocks, 256 pairs): shapes that need four actors
CONSTANTS
  NActors = 4
  MaxCounter = 1
  Actors <- MCActors
INIT Init
NEXT Next
INVARIANTS OrderOK LatticeOK ForgetOK DotOK Dump
CHECK_DEADLOCK FALSE
