\* GList: 2 replicas, 3 inserts (insert i / insert_after / insert_before at every position), any delivery order, merges
CONSTANTS
  Kind = "glist"
  NReps = 2
  MaxOps = 3
  Regime = "any"
  UseMerge = TRUE
  UseSnap = FALSE
  UseDup = FALSE
  DupElems = FALSE
  BeyondLen = 0
  ScriptName = "none"
  Reps <- MCReps
  Actors <- MCActors
  ActorOf <- MCActorOf
INIT Init
NEXT Next
VIEW noopView
CONSTRAINT NoopBound1
ACTION_CONSTRAINT Edge
INVARIANTS TypeOK UniqueIds RefinesA EachOnce Converge ClockOK DupNoop ValidateOpOK MergeLaws Hybrid
PROPERTY IndexSemantics
CHECK_DEADLOCK FALSE
