\* MerkleReg: 3 replicas, 2 values, 3 writes on ANY subset of the visible nodes, any arrival order, merges
CONSTANTS
  NReps = 3
  NVals = 2
  MaxOps = 3
  Regime = "any"
  UseMerge = TRUE
  UseSnap = FALSE
  UseDup = FALSE
  ChildMode = "any"
  Reps <- MCReps
  Vals <- MCVals
  ActorOf <- MCActorOf
INIT Init
NEXT Next
VIEW View
ACTION_CONSTRAINT Edge
INVARIANTS TypeOK RefinesA MergeLaws Hybrid DupNoop StaleNoop ValidateOpOK
PROPERTY WriteReplacesHeads
CHECK_DEADLOCK FALSE
