-------------------------------- MODULE Ident --------------------------------
(***************************************************************************)
(* Dense identifiers of `src/identifier.rs`: an identifier is a path, a    *)
(* sequence of nodes <<rational, marker>>; rationals are normalised        *)
(* <<numerator, denominator>> pairs with denominator > 0.                  *)
(* IdCmp and Between are transcribed branch by branch.                     *)
(***************************************************************************)
EXTENDS Integers, Sequences

RLt(a, b) == a[1] * b[2] < b[1] * a[2]
REq(a, b) == a[1] * b[2] = b[1] * a[2]
RECURSIVE Gcd(_, _)
Gcd(a, b) == IF b = 0 THEN a ELSE Gcd(b, a % b)
Abs(x) == IF x < 0 THEN -x ELSE x
Norm(q) == LET g == Gcd(Abs(q[1]), q[2]) IN IF g = 0 THEN <<0, 1>> ELSE <<q[1] \div g, q[2] \div g>>
RMid(a, b) == Norm(<<a[1] * b[2] + b[1] * a[2], 2 * a[2] * b[2]>>)     \* (low + high) / 2
RAdd1(a) == <<a[1] + a[2], a[2]>>                                       \* low + 1
RSub1(a) == <<a[1] - a[2], a[2]>>                                       \* high - 1

\* (BigRational, T) tuples compare lexicographically: rational first, then marker.
\* MLt is the order of the marker type (integers here, OrdDot pairs in ListCrdt).
NodeCmpWith(MLt(_, _), x, y) ==
  IF RLt(x[1], y[1]) THEN -1 ELSE IF RLt(y[1], x[1]) THEN 1
  ELSE IF MLt(x[2], y[2]) THEN -1 ELSE IF MLt(y[2], x[2]) THEN 1 ELSE 0

\* Ord for Identifier (identifier.rs:38-54): lexicographic, and when one path is a
\* prefix of the other the LONGER one sorts first ((None, Some) => Greater)
RECURSIVE IdCmpWith(_, _, _)
IdCmpWith(MLt(_, _), a, b) ==
  IF a = <<>> /\ b = <<>> THEN 0
  ELSE IF a = <<>> THEN 1
  ELSE IF b = <<>> THEN -1
  ELSE LET c == NodeCmpWith(MLt, Head(a), Head(b)) IN
       IF c # 0 THEN c ELSE IdCmpWith(MLt, Tail(a), Tail(b))

\* rational_between(low, high) with "None" encoded as <<>>
RBetween(lo, hi) ==
  IF lo = <<>> /\ hi = <<>> THEN <<0, 1>>
  ELSE IF hi = <<>> THEN RAdd1(lo) ELSE IF lo = <<>> THEN RSub1(hi) ELSE RMid(lo, hi)

\* the loop of Identifier::between for low < high (identifier.rs:90-124); lp/hp are
\* the remaining paths; "low_path = empty()" is the recursive call with <<>>
RECURSIVE WalkWith(_, _, _, _, _)
WalkWith(MLt(_, _), lp, hp, m, acc) ==
  IF lp # <<>> /\ hp # <<>> /\ Head(lp)[1] = Head(hp)[1] THEN
     LET l == Head(lp)  h == Head(hp) IN
     IF MLt(l[2], m) /\ MLt(m, h[2]) THEN Append(acc, <<h[1], m>>)        \* the marker fits between the siblings
     ELSE IF l[2] = h[2] THEN WalkWith(MLt, Tail(lp), Tail(hp), m, Append(acc, h))   \* common prefix
     ELSE WalkWith(MLt, <<>>, Tail(hp), m, Append(acc, h))               \* diverged: follow high, drop low
  ELSE Append(acc, <<RBetween(IF lp = <<>> THEN <<>> ELSE Head(lp)[1],
                              IF hp = <<>> THEN <<>> ELSE Head(hp)[1]), m>>)

\* Identifier::between(Some(low), Some(high), marker)
RECURSIVE BetweenWith(_, _, _, _)
BetweenWith(MLt(_, _), lo, hi, m) ==
  LET c == IdCmpWith(MLt, lo, hi) IN
  IF c = 1 THEN BetweenWith(MLt, hi, lo, m) ELSE IF c = 0 THEN hi ELSE WalkWith(MLt, lo, hi, m, <<>>)
\* Identifier::between(low, None, marker) / (None, high, marker) / (None, None, marker)
BetweenOpt(MLt(_, _), lo, hi, m) ==
  IF lo # <<>> /\ hi # <<>> THEN BetweenWith(MLt, lo, hi, m)
  ELSE << <<RBetween(IF lo = <<>> THEN <<>> ELSE lo[1][1], IF hi = <<>> THEN <<>> ELSE hi[1][1]), m>> >>

\* integer markers
IntLt(x, y) == x < y
NodeCmp(x, y) == NodeCmpWith(IntLt, x, y)
IdCmp(a, b) == IdCmpWith(IntLt, a, b)
Between(lo, hi, m) == BetweenWith(IntLt, lo, hi, m)
=============================================================================
