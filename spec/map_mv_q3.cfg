\* Map<K,MVReg> q3: 3 replicas, 2 keys, 3 API ops, per-actor FIFO delivery (an overwrite overtakes what it observed), no merges
CONSTANTS
  DescName = "mv"
  NReps = 3
  NKeys = 2
  NMembers = 1
  NVals = 1
  MaxOps = 3
  Regime = "fifo"
  UseMerge = FALSE
  UseSnap = FALSE
  UseDup = FALSE
  RmVia = FALSE
  DumpReset = FALSE
  ScriptName = "none"
  Reps <- MCReps
  Actors <- MCActors
  Keys <- MCKeys
  Members <- MCMembers
  MvVals <- MCVals
  ActorOf <- MCActorOf
  ValDesc <- MCDesc
INIT Init
NEXT Next
VIEW View
ACTION_CONSTRAINT Edge
INVARIANTS TypeOK KeysOK TopCtxOK FreshDot
CHECK_DEADLOCK FALSE
