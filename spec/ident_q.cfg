\* depth <= 2 over rationals {-1, 0, 1/2, 1} x markers {0,1,2}: 156 identifiers, 156 x 156 x 3 = 73 008 cases
CONSTANTS
  Depth = 2
  Rats <- MCRats
  Marks = {0, 1, 2}
INIT Init
NEXT Next
INVARIANTS OrderOK DenseOK Dump
CHECK_DEADLOCK FALSE
