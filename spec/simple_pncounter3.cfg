\* PNCounter (thorough): 3 replicas, 3 ops (inc, dec, inc_many, dec_many 0/2), any delivery order, merges
CONSTANTS
  Kind = "pncounter"
  NReps = 3
  MaxOps = 3
  Regime = "any"
  UseMerge = TRUE
  UseSnap = FALSE
  UseDup = FALSE
  UniqueMarkers = TRUE
  DumpReset = FALSE
  Reps <- MCReps
  Actors <- MCActors
  ActorOf <- MCActorOf
  Vals <- MCValsPos
  Steps <- MCSteps
  Markers <- MCMarkers
INIT Init
NEXT Next
VIEW View
ACTION_CONSTRAINT Edge
INVARIANTS TypeOK RefinesA ReadsOK MergeLaws DupNoop StaleNoop ValidateOpOK ValidateMergeOK ValidateMergeSym ResetLaws
PROPERTY Monotone
CHECK_DEADLOCK FALSE
