\* q2: 2 replicas, 2 values, 4 writes, any delivery order, merges
CONSTANTS
  NReps = 2
  NVals = 2
  MaxOps = 4
  Regime = "any"
  UseMerge = TRUE
  UseSnap = FALSE
  UseDup = FALSE
  DumpReset = FALSE
  ScriptName = "none"
  Reps <- MCReps
  Actors <- MCActors
  Vals <- MCVals
  ActorOf <- MCActorOf
INIT Init
NEXT Next
VIEW noopView
CONSTRAINT NoopBound1
ACTION_CONSTRAINT Edge
INVARIANTS TypeOK RefinesA NoDuplicatePair Converge MergeLaws Hybrid DupNoop StaleNoop FreshDot
CHECK_DEADLOCK FALSE
