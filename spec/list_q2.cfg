\* List: 2 replicas, 4 ops (insert at every index incl. one past the end, append, delete at every index), causal delivery
CONSTANTS
  Kind = "list"
  NReps = 2
  MaxOps = 4
  Regime = "causal"
  UseMerge = FALSE
  UseSnap = FALSE
  UseDup = FALSE
  DupElems = FALSE
  BeyondLen = 1
  ScriptName = "none"
  Reps <- MCReps
  Actors <- MCActors
  ActorOf <- MCActorOf
INIT Init
NEXT Next
VIEW View
ACTION_CONSTRAINT Edge
INVARIANTS TypeOK UniqueIds RefinesA EachOnce Converge ClockOK DupNoop ValidateOpOK MergeLaws Hybrid
PROPERTY IndexSemantics
CHECK_DEADLOCK FALSE
