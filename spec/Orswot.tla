------------------------------- MODULE Orswot -------------------------------
(***************************************************************************)
(* Layer B ("the algorithm") for `src/orswot.rs`: one operator per method, *)
(* implementation shaped.                                                  *)
(*                                                                         *)
(* State: [clock, entries, deferred]                                       *)
(*   clock    : set clock (all add dots ever seen)                         *)
(*   entries  : Members -> witness clock; the zero clock means "no entry"  *)
(*              (the code prunes emptied member clocks)                    *)
(*   deferred : set of <<remove context, set of members>>                  *)
(* Ops: [kind |-> "add", actor, counter, members]                          *)
(*      [kind |-> "rm",  clock, members]                                   *)
(***************************************************************************)
EXTENDS Clocks

CONSTANTS Members

OrDefault == [clock |-> Zero, entries |-> [m \in Members |-> Zero], deferred |-> {}]

OrHas(s, m) == ~IsZero(s.entries[m])

\* Orswot::apply_rm (orswot.rs:275-295)
OrApplyRm(s, ms, c) ==
  LET e2 == [m \in Members |-> IF m \in ms THEN Forget(s.entries[m], c) ELSE s.entries[m]]
  IN [s EXCEPT !.entries = e2,
               !.deferred = IF Cmp(c, s.clock) \in {"NONE", "GT"}
                            THEN DefInsert(s.deferred, c, ms) ELSE s.deferred]

\* apply a set of pending removes one after the other (order is irrelevant:
\* the member subtractions commute and DefInsert unions)
RECURSIVE OrApplyRmAll(_, _)
OrApplyRmAll(s, todo) ==
  IF todo = {} THEN s
  ELSE LET p == CHOOSE p \in todo : TRUE
       IN OrApplyRmAll(OrApplyRm(s, p[2], p[1]), todo \ {p})

\* Orswot::apply_deferred (orswot.rs:360-365)
OrApplyDeferred(s) == OrApplyRmAll([s EXCEPT !.deferred = {}], s.deferred)

\* CmRDT::apply (orswot.rs:65-85)
OrApply(s, op) ==
  IF op.kind = "add" THEN
    IF s.clock[op.actor] >= op.counter THEN s        \* already seen
    ELSE OrApplyDeferred(
           [s EXCEPT !.entries = [m \in Members |->
                                    IF m \in op.members
                                    THEN Bump(s.entries[m], op.actor, op.counter)
                                    ELSE s.entries[m]],
                     !.clock = Bump(s.clock, op.actor, op.counter)])
  ELSE OrApplyRm(s, op.members, op.clock)

\* CvRDT::merge (orswot.rs:133-198)
OrMerge(s, o) ==
  LET e2 == [m \in Members |->
        LET mine == s.entries[m]  theirs == o.entries[m] IN
        IF IsZero(mine) /\ IsZero(theirs) THEN Zero
        ELSE IF IsZero(theirs) THEN (IF Ge(o.clock, mine) THEN Zero ELSE Forget(mine, o.clock))
        ELSE IF IsZero(mine) THEN (IF Ge(s.clock, theirs) THEN Zero ELSE Forget(theirs, s.clock))
        ELSE Join(Join(Inter(theirs, mine), CloneWithout(theirs, s.clock)), CloneWithout(mine, o.clock))]
      s1 == OrApplyRmAll([s EXCEPT !.entries = e2], o.deferred)
  IN OrApplyDeferred([s1 EXCEPT !.clock = Join(s.clock, o.clock)])

\* ResetRemove::reset_remove (orswot.rs:201-229).  The pending table is
\* rebuilt with insert-or-union (after the fix of KF-18a; before it the
\* collect() into a HashMap lost one of two colliding contexts).
OrReset(s, c) ==
  [clock    |-> Forget(s.clock, c),
   entries  |-> [m \in Members |-> Forget(s.entries[m], c)],
   deferred |-> LET cs == {Forget(p[1], c) : p \in s.deferred} \ {Zero}
                IN {<<k, UNION {p[2] : p \in {q \in s.deferred : Forget(q[1], c) = k}}>> : k \in cs}]

\* CmRDT::validate_op (orswot.rs:58-63)
OrValidateOp(s, op) ==
  IF op.kind = "add" THEN ClockValidate(s.clock, op.actor, op.counter) ELSE "Ok"

\* CvRDT::validate_merge (orswot.rs:114-130): some dot of one of our member
\* clocks is the current counter of the same actor in a *different* member's
\* clock on the other side
OrValidateMerge(s, o) ==
  IF \E m1, m2 \in Members, a \in Actors :
        m1 # m2 /\ s.entries[m1][a] > 0 /\ o.entries[m2][a] = s.entries[m1][a]
  THEN "DoubleSpentDot" ELSE "Ok"

\* ---- reads (orswot.rs:298-358); a ReadCtx is [add, rm, val] --------------
OrReadSet(s) == {m \in Members : OrHas(s, m)}
OrRead(s)     == [add |-> s.clock, rm |-> s.clock, val |-> OrReadSet(s)]
OrReadCtx(s)  == [add |-> s.clock, rm |-> s.clock]
OrContains(s, m) == [add |-> s.clock, rm |-> s.entries[m], val |-> OrHas(s, m)]

\* ---- op constructors through contexts (ctx.rs:43-55, orswot.rs:241-272) --
\* derive_add_ctx(actor) on a read context with add clock c: dot = c.inc(actor)
OrAdd(s, a, ms) == [kind |-> "add", actor |-> a, counter |-> IncCounter(OrReadCtx(s).add, a), members |-> ms]
\* rm(m, contains(m).derive_rm_ctx())
OrRm(s, m) == [kind |-> "rm", clock |-> OrContains(s, m).rm, members |-> {m}]
\* rm_all(ms, read().derive_rm_ctx())
OrRmAll(s, ms) == [kind |-> "rm", clock |-> OrRead(s).rm, members |-> ms]
=============================================================================
