------------------------------ MODULE ReplCore ------------------------------
(***************************************************************************)
(* The replicated system every op-/state-replicated CRDT of the library    *)
(* lives in.  The library is sequential; all non-determinism is in the     *)
(* environment: who edits when, which ops reach whom in which order        *)
(* (possibly twice), who merges whose (possibly stale) state.  Each action *)
(* below is one public call returning on one replica (its linearisation    *)
(* point).  The module is instantiated per CRDT type with that type's      *)
(* layer-B operators (implicit substitution by name).                      *)
(***************************************************************************)
EXTENDS Naturals, Sequences, FiniteSets

CONSTANTS
  Reps,          \* replica identifiers 1..N
  ActorOf,       \* function Reps -> actor used by that replica for its edits
  MaxOps,        \* bound on the number of API-generated ops in a behaviour
  Regime,        \* "causal" | "fifo" | "any" : which deliveries the network may make
  UseMerge,      \* BOOLEAN: state merges between replicas
  UseDup,        \* BOOLEAN: explicit re-delivery transitions (the no-op obligation DupNoop is checked in every state anyway)
  UseSnap,       \* BOOLEAN: one saved <<state, knowledge>> that anybody may merge later
  InitSt,        \* initial replica state
  Cmds(_, _),    \* Cmds(s, r): commands replica r may issue in local state s
  MkOp(_, _, _), \* MkOp(s, r, cmd): the op the API builds for cmd from a read of s
  Apply(_, _),   \* CmRDT::apply
  Merge(_, _)    \* CvRDT::merge

VARIABLES
  st,    \* st[r]  : layer-B state of replica r
  know,  \* know[r]: set of indices (into ops) of the ops r has learned of
  ops,   \* the log: sequence of [op, author, deps, cmd]; deps = know[author] at issue time, cmd = the API call
  snap,  \* <<>> or <<state, knowledge>>: one saved copy (stale snapshot / backup / lagging peer)
  hist   \* path from Init (a history variable, hidden from the fingerprint by VIEW)

vars == <<st, know, ops, snap, hist>>
coreView == <<st, know, ops, snap>>
\* Steps that leave the abstract state unchanged -- a duplicate delivery, a merge of a state whose knowledge is subsumed --
\* are tagged in hist ("dup", or a fourth element "noop").  Under coreView TLC identifies the state after such a step
\* with the state before it (hist is hidden), so it prints the step but never a behaviour that CONTINUES after it: what a
\* buggy no-op breaks is then seen only by the per-state obligations.  Configs that use `VIEW noopView` with
\* `CONSTRAINT NoopBound1` distinguish one such step (which one it was is part of the view) and enumerate everything
\* that can follow it.
noopTags(h) == SelectSeq(h, LAMBDA a : Len(a) = 4 \/ a[1] = "dup")
noopView == <<st, know, ops, snap, noopTags(hist)>>
NoopBound1 == Len(noopTags(hist)) <= 1

Init ==
  /\ st = [r \in Reps |-> InitSt]
  /\ know = [r \in Reps |-> {}]
  /\ ops = <<>>
  /\ snap = <<>>
  /\ hist = <<>>

\* Replica r reads its state, derives the contexts the README prescribes,
\* builds an op through the type's constructor, and applies it locally.
Gen(r) ==
  /\ Len(ops) < MaxOps
  /\ \E cmd \in Cmds(st[r], r) :
       LET op == MkOp(st[r], r, cmd) IN
       /\ ops' = Append(ops, [op |-> op, author |-> r, deps |-> know[r], cmd |-> cmd])
       /\ st' = [st EXCEPT ![r] = Apply(@, op)]
       /\ know' = [know EXCEPT ![r] = @ \cup {Len(ops) + 1}]
       /\ hist' = Append(hist, <<"gen", r, cmd>>)
  /\ UNCHANGED snap

CanDeliver(r, i) ==
  CASE Regime = "causal" -> ops[i].deps \subseteq know[r]
    [] Regime = "fifo"   -> \A j \in 1..(i-1) : ops[j].author = ops[i].author => j \in know[r]
    [] OTHER             -> TRUE

\* first delivery of op i to replica r
Deliver(r) ==
  /\ \E i \in 1..Len(ops) :
       /\ i \notin know[r]
       /\ CanDeliver(r, i)
       /\ st' = [st EXCEPT ![r] = Apply(@, ops[i].op)]
       /\ know' = [know EXCEPT ![r] = @ \cup {i}]
       /\ hist' = Append(hist, <<"dlv", r, i>>)
  /\ UNCHANGED <<ops, snap>>

\* at-least-once delivery: an op r already knows arrives again
Redeliver(r) ==
  /\ UseDup
  /\ \E i \in know[r] :
       /\ st' = [st EXCEPT ![r] = Apply(@, ops[i].op)]
       /\ hist' = Append(hist, <<"dup", r, i>>)
  /\ UNCHANGED <<know, ops, snap>>

\* r merges q's current state
MergeFrom(r) ==
  /\ UseMerge
  /\ \E q \in Reps \ {r} :
       /\ st' = [st EXCEPT ![r] = Merge(@, st[q])]
       /\ know' = [know EXCEPT ![r] = @ \cup know[q]]
       /\ hist' = Append(hist, IF Merge(st[r], st[q]) = st[r] /\ know[q] \subseteq know[r]
                                THEN <<"mrg", r, q, "noop">> ELSE <<"mrg", r, q>>)
  /\ UNCHANGED <<ops, snap>>

SaveSnap(q) ==
  /\ UseSnap
  /\ know[q] # {}
  /\ snap # <<st[q], know[q]>>
  /\ snap' = <<st[q], know[q]>>
  /\ hist' = Append(hist, <<"save", q, 0>>)
  /\ UNCHANGED <<st, know, ops>>

MergeSnap(r) ==
  /\ UseSnap
  /\ snap # <<>>
  /\ st' = [st EXCEPT ![r] = Merge(@, snap[1])]
  /\ know' = [know EXCEPT ![r] = @ \cup snap[2]]
  /\ hist' = Append(hist, IF Merge(st[r], snap[1]) = st[r] /\ snap[2] \subseteq know[r]
                           THEN <<"mrgsnap", r, 0, "noop">> ELSE <<"mrgsnap", r, 0>>)
  /\ UNCHANGED <<ops, snap>>

\* Serialise and restore replica r: a stuttering step of the abstract state.
\* It is not part of Next (it would only add self loops); the harness executes
\* it as a real serde_json round trip after EVERY step of every replayed
\* behaviour (property C19), i.e. every reachable state is a crash point.
Persist(r) == UNCHANGED vars

(***************************************************************************)
(* Scenario configs start from the state reached by a fixed script (a      *)
(* sequence of the same actions, written as in hist) and explore freely    *)
(* from there: witness histories of the known findings and shapes that     *)
(* need more actors/ops than the exhaustive configs reach.  DoAct is the   *)
(* functional rendering of the actions above.                              *)
(***************************************************************************)
DoAct(x, a) ==
  LET r == a[2] IN
  CASE a[1] = "gen" ->
         LET op == MkOp(x.st[r], r, a[3]) IN
         [x EXCEPT !.ops = Append(@, [op |-> op, author |-> r, deps |-> x.know[r], cmd |-> a[3]]),
                   !.st[r] = Apply(@, op),
                   !.know[r] = @ \cup {Len(x.ops) + 1}]
    [] a[1] \in {"dlv", "dup"} -> [x EXCEPT !.st[r] = Apply(@, x.ops[a[3]].op), !.know[r] = @ \cup {a[3]}]
    [] a[1] = "mrg"     -> [x EXCEPT !.st[r] = Merge(@, x.st[a[3]]), !.know[r] = @ \cup x.know[a[3]]]
    [] a[1] = "save"    -> [x EXCEPT !.snap = <<x.st[r], x.know[r]>>]
    [] a[1] = "mrgsnap" -> [x EXCEPT !.st[r] = Merge(@, x.snap[1]), !.know[r] = @ \cup x.snap[2]]
RECURSIVE RunScript(_, _)
RunScript(x, s) == IF s = <<>> THEN x ELSE RunScript(DoAct(x, Head(s)), Tail(s))
InitAfter(script) ==
  LET x == RunScript([st |-> [r \in Reps |-> InitSt], know |-> [r \in Reps |-> {}], ops |-> <<>>, snap |-> <<>>], script) IN
  /\ st = x.st /\ know = x.know /\ ops = x.ops /\ snap = x.snap /\ hist = script

Next == \E r \in Reps : Gen(r) \/ Deliver(r) \/ Redeliver(r) \/ MergeFrom(r) \/ SaveSnap(r) \/ MergeSnap(r)

Spec == Init /\ [][Next]_vars

\* "this step is a local edit of replica r" in terms of the log only (hist is hidden
\* by VIEW and must not be used in action properties)
IsGenBy(r) == Len(ops') = Len(ops) + 1 /\ ops'[Len(ops')].author = r
NewOp == ops'[Len(ops')]

\* ---- generic facts about the log ----------------------------------------
\* the transitive causal past of op i (deps alone is not causally closed
\* under non-causal delivery)
RECURSIVE HB(_)
HB(i) == ops[i].deps \cup UNION {HB(j) : j \in ops[i].deps}

TypeOK ==
  /\ \A r \in Reps : know[r] \subseteq 1..Len(ops)
  /\ \A i \in 1..Len(ops) : ops[i].deps \subseteq 1..(i-1)
  /\ Len(ops) <= MaxOps
=============================================================================
