\* scenario: A adds x and y; B (saw both) removes x and then y with the context of read() (the SAME clock);
\* then free deliveries with 4 replicas (two fresh replicas can each hold ONE of the two pending removes: merge-law triples)
CONSTANTS
  NReps = 4
  NMembers = 2
  MaxOps = 4
  Regime = "fifo"
  UseMerge = TRUE
  UseSnap = FALSE
  UseDup = FALSE
  DumpReset = FALSE
  CmdSet = {"add", "rm", "rmall"}
  ScriptName = "same_ctx_removes"
  Reps <- MCReps
  Actors <- MCActors
  Members <- MCMembers
  ActorOf <- MCActorOf
INIT ScriptInit
NEXT Next
VIEW noopView
CONSTRAINT NoopBound1
ACTION_CONSTRAINT Edge
INVARIANTS TypeOK RefinesA Converge MergeLaws Hybrid DupNoop StaleNoop ValidateOpOK ValidateMergeSym ValidateMergeOKorKF CtxOK FreshDot
CHECK_DEADLOCK FALSE
