\* Map<K,Map<K,Orswot>> q: 2 replicas, 1x1 keys, 1 member, 3 API ops, causal delivery, merges
CONSTANTS
  DescName = "map_or"
  NReps = 2
  NKeys = 1
  NMembers = 1
  NVals = 1
  MaxOps = 3
  Regime = "causal"
  UseMerge = TRUE
  UseSnap = FALSE
  UseDup = FALSE
  RmVia = FALSE
  DumpReset = FALSE
  ScriptName = "none"
  Reps <- MCReps
  Actors <- MCActors
  Keys <- MCKeys
  Members <- MCMembers
  MvVals <- MCVals
  ActorOf <- MCActorOf
  ValDesc <- MCDesc
INIT Init
NEXT Next
VIEW View
ACTION_CONSTRAINT Edge
INVARIANTS TypeOK KeysOK TopCtxOK FreshDot
CHECK_DEADLOCK FALSE
