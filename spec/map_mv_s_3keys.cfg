\* scenario Map<K,MVReg>, 3 keys: three key removes with the SAME context (one whole-map read), outer keys first; then FIFO deliveries to a third replica
CONSTANTS
  DescName = "mv"
  NReps = 3
  NKeys = 3
  NMembers = 1
  NVals = 1
  MaxOps = 4
  Regime = "fifo"
  UseMerge = FALSE
  UseSnap = FALSE
  UseDup = FALSE
  RmVia = TRUE
  DumpReset = FALSE
  ScriptName = "three_key_removes"
  Reps <- MCReps
  Actors <- MCActors
  Keys <- MCKeys
  Members <- MCMembers
  MvVals <- MCVals
  ActorOf <- MCActorOf
  ValDesc <- MCDesc
INIT ScriptInit
NEXT Next
VIEW View
ACTION_CONSTRAINT Edge
INVARIANTS TypeOK KeysOK TopCtxOK FreshDot
CHECK_DEADLOCK FALSE
