\* depth <= 3 over rationals {0, 1/2} x markers {0,1}: 4 + 16 + 64 = 84 identifiers, 84 x 84 x 2 = 14 112 cases (parent/child/grandchild paths)
CONSTANTS
  Depth = 3
  Rats <- MCRats2
  Marks = {0, 1}
INIT Init
NEXT Next
INVARIANTS OrderOK DenseOK Dump
CHECK_DEADLOCK FALSE
