------------------------------ MODULE Trace_Map ------------------------------
(* impl -> spec for Map<K, V> (any value descriptor); see TraceCore.tla.      *)
(* kinds: drift = the recorded internal state is not layer B's state;         *)
(*        keys / topctx / contents / op = a recorded observable (or the       *)
(*        contents the recorded state shows) contradicts layer A.             *)
EXTENDS SysMap, TLC, Json, IOUtils, SequencesExt

CONSTANTS NReps, NKeys, NMembers, NVals, DescName
MCReps == 1..NReps
MCActors == 1..NReps
MCKeys == 1..NKeys
MCMembers == 1..NMembers
MCVals == 1..NVals
MCActorOf == [r \in MCReps |-> r]
MCDesc ==
  CASE DescName = "mv"     -> [t |-> "mv"]
    [] DescName = "or"     -> [t |-> "or"]
    [] DescName = "map_mv" -> [t |-> "map", of |-> [t |-> "mv"]]
    [] DescName = "map_or" -> [t |-> "map", of |-> [t |-> "or"]]
    [] DescName = "map_map_mv" -> [t |-> "map", of |-> [t |-> "map", of |-> [t |-> "mv"]]]

Rec == ndJsonDeserialize(IOEnv.TRACE)
VARIABLES l, bad
tvars == <<st, know, ops, snap, hist, l, bad>>

\* the JSON command has exactly the spec's shape (records c/k/sub, c/m, c/v)
CmdOf(x) == x
TC == INSTANCE TraceCore
TInit == TC!TraceInit /\ bad = <<>>

DefOf(j) == {<<q[1], ToSet(q[2])>> : q \in ToSet(j)}
RECURSIVE ValOfJson(_, _)
ValOfJson(d, j) ==
  IF d.t = "mv" THEN [vals |-> [i \in 1..Len(j.vals) |-> [c |-> j.vals[i][1], v |-> j.vals[i][2]]]]
  ELSE IF d.t = "or" THEN [clock |-> j.clock, entries |-> j.entries, deferred |-> DefOf(j.deferred)]
  ELSE [clock |-> j.clock,
        entries |-> [k \in {x \in 1..Len(j.entries) : Len(j.entries[x]) > 0} |->
                       [clock |-> j.entries[k][1].clock, val |-> ValOfJson(d.of, j.entries[k][1].val)]],
        deferred |-> DefOf(j.deferred)]

\* the model's op from the recorded op
RECURSIVE OpOfJson(_, _)
OpOfJson(d, o) ==
  IF d.t = "mv" THEN [clock |-> o.clock, val |-> o.val]
  ELSE IF d.t = "or" THEN
     IF o.kind = "add" THEN [kind |-> "add", actor |-> o.actor, counter |-> o.counter, members |-> ToSet(o.members)]
     ELSE [kind |-> "rm", clock |-> o.clock, members |-> ToSet(o.members)]
  ELSE IF o.kind = "up" THEN [kind |-> "up", actor |-> o.actor, counter |-> o.counter, key |-> o.key, op |-> OpOfJson(d.of, o.op)]
       ELSE [kind |-> "rm", clock |-> o.clock, keys |-> ToSet(o.keys)]
RECURSIVE StripOp(_, _)
StripOp(d, op) ==      \* the model's MVReg put carries the writer's actor for bookkeeping only
  IF d.t = "mv" THEN [clock |-> op.clock, val |-> op.val]
  ELSE IF d.t = "or" THEN op
  ELSE IF op.kind = "up" THEN [op EXCEPT !.op = StripOp(d.of, op.op)] ELSE op

\* the part of an op that layer A determines: dots, keys, elements and TOP-LEVEL remove contexts; the clocks
\* hidden inside nested ops are layer-B detail (a difference there is drift, not a violation)
RECURSIVE NestedView(_, _)
NestedView(d, op) ==
  IF d.t = "mv" THEN [val |-> op.val]
  ELSE IF d.t = "or" THEN (IF op.kind = "rm" THEN [kind |-> "rm", members |-> op.members] ELSE op)
  ELSE IF op.kind = "up" THEN [kind |-> "up", actor |-> op.actor, counter |-> op.counter, key |-> op.key,
                               op |-> NestedView(d.of, op.op)]
       ELSE [kind |-> "rm", keys |-> op.keys]
AView(op) ==
  IF op.kind = "up" THEN [kind |-> "up", actor |-> op.actor, counter |-> op.counter, key |-> op.key,
                          op |-> NestedView(ValDesc, op.op)]
  ELSE op

Verdicts(e, r) ==
  LET post == ValOfJson(TopDesc, e.post)
      K == know'[r]
      keysRead == {e.reads.keys[i][1] : i \in 1..Len(e.reads.keys)}
      b1 == IF ~SEq(post, st'[r]) THEN <<[l |-> l, kind |-> "drift"]>> ELSE <<>>
      b2 == IF keysRead # ExpSem(ops', K).keys \/ e.reads.len.val # Cardinality(ExpSem(ops', K).keys)
            THEN <<[l |-> l, kind |-> "keys"]>> ELSE <<>>
      b3 == IF e.reads.read_ctx.add # ExpClock(ops', K)
               \/ \E k \in Keys : e.reads.get[k].rm # ExpWit(ops', K, k)
               \/ post.deferred # ExpPending(ops', K)
            THEN <<[l |-> l, kind |-> "topctx"]>> ELSE <<>>
      b4 == IF Shown(TopDesc, post) # ExpSem(ops', K) THEN <<[l |-> l, kind |-> "contents"]>> ELSE <<>>
      b5 == IF e.a = "gen" /\ AView(OpOfJson(TopDesc, e.op[1])) # AView(StripOp(TopDesc, ops'[Len(ops')].op))
            THEN <<[l |-> l, kind |-> "op"]>> ELSE <<>>
  IN b1 \o b2 \o b3 \o b4 \o b5

TStep == TC!TraceStep /\ bad' = bad \o (IF Rec[l].a = "panic" THEN <<[l |-> l, kind |-> "panic"]>> ELSE Verdicts(Rec[l], Rec[l].r))
Report == TC!TraceDone => PrintT(<<"VERDICT", ToJson([events |-> Len(Rec), bad |-> bad])>>)
Accepted == (TLCGet("stats").diameter - 1 = Len(Rec)) \/ PrintT(<<"TRACE-NOT-CONSUMED", TLCGet("stats").diameter - 1, Len(Rec)>>)
=============================================================================
