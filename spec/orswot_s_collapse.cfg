\* scenario (regression of fix 4c1b5ee / KF-18a): replica 4 holds two pending removes, {A:1} -> {x} and {A:1,C:1} -> {y};
\* reset_remove with every clock of [Actors -> 0..1] (e.g. {C:1} makes the two contexts collapse)
CONSTANTS
  NReps = 4
  NMembers = 2
  MaxOps = 4
  Regime = "fifo"
  UseMerge = FALSE
  UseSnap = FALSE
  UseDup = FALSE
  DumpReset = TRUE
  CmdSet = {"add", "rm", "addall"}
  ScriptName = "collapsing_pending"
  Reps <- MCReps
  Actors <- MCActors
  Members <- MCMembers
  ActorOf <- MCActorOf
INIT ScriptInit
NEXT Next
VIEW View
ACTION_CONSTRAINT Edge
INVARIANTS TypeOK RefinesA Converge DupNoop ValidateOpOK CtxOK FreshDot
CHECK_DEADLOCK FALSE
