\* MerkleReg: 3 replicas, 3 writes on top of the heads read, any arrival order (orphans), merges
CONSTANTS
  NReps = 3
  NVals = 1
  MaxOps = 3
  Regime = "any"
  UseMerge = TRUE
  UseSnap = FALSE
  UseDup = FALSE
  ChildMode = "heads"
  Reps <- MCReps
  Vals <- MCVals
  ActorOf <- MCActorOf
INIT Init
NEXT Next
VIEW noopView
CONSTRAINT NoopBound1
ACTION_CONSTRAINT Edge
INVARIANTS TypeOK RefinesA MergeLaws Hybrid DupNoop StaleNoop ValidateOpOK
PROPERTY WriteReplacesHeads
CHECK_DEADLOCK FALSE
