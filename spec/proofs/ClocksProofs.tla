---------------------------- MODULE ClocksProofs ----------------------------
(***************************************************************************)
(* Unbounded counterpart of MC_Clocks (property C10): the declarative      *)
(* clock order is a partial order, Join is the least upper bound, Glb the  *)
(* greatest lower bound, Forget composes through Join and is idempotent,   *)
(* and applying a dot is monotone -- for ANY set of actors and unbounded   *)
(* counters.  Checked by TLAPS (tlapm); this is about the specification's  *)
(* operators only, the binding to the code is MC_Clocks + the harness.     *)
(* The operators are restated here (same text as Clocks.tla) so that the   *)
(* module has no dependency TLAPS cannot parse.                            *)
(***************************************************************************)
EXTENDS Naturals, TLAPS

CONSTANT Actors
Clock == [Actors -> Nat]

Leq(c, d) == \A a \in Actors : c[a] <= d[a]
Max2(x, y) == IF x >= y THEN x ELSE y
Min2(x, y) == IF x <= y THEN x ELSE y
Join(c, d) == [a \in Actors |-> Max2(c[a], d[a])]
Glb(c, d) == [a \in Actors |-> Min2(c[a], d[a])]
Forget(c, o) == [a \in Actors |-> IF o[a] >= c[a] THEN 0 ELSE c[a]]
Bump(c, a, n) == [c EXCEPT ![a] = IF @ < n THEN n ELSE @]

THEOREM LeqRefl == \A c \in Clock : Leq(c, c)
  BY DEF Clock, Leq

THEOREM LeqTrans == \A c, d, e \in Clock : Leq(c, d) /\ Leq(d, e) => Leq(c, e)
  BY DEF Clock, Leq

THEOREM LeqAntisym == \A c, d \in Clock : Leq(c, d) /\ Leq(d, c) => c = d
<1> SUFFICES ASSUME NEW c \in Clock, NEW d \in Clock, Leq(c, d), Leq(d, c) PROVE c = d
    OBVIOUS
<1>1. \A a \in Actors : c[a] = d[a]
    BY DEF Clock, Leq
<1>2. c = [a \in Actors |-> c[a]] /\ d = [a \in Actors |-> d[a]]
    BY DEF Clock
<1> QED BY <1>1, <1>2

THEOREM JoinType == \A c, d \in Clock : Join(c, d) \in Clock
  BY DEF Clock, Join, Max2

THEOREM JoinUpper == \A c, d \in Clock : Leq(c, Join(c, d)) /\ Leq(d, Join(c, d))
  BY DEF Clock, Leq, Join, Max2

THEOREM JoinLeast == \A c, d, u \in Clock : Leq(c, u) /\ Leq(d, u) => Leq(Join(c, d), u)
  BY DEF Clock, Leq, Join, Max2

THEOREM GlbLower == \A c, d \in Clock : Leq(Glb(c, d), c) /\ Leq(Glb(c, d), d)
  BY DEF Clock, Leq, Glb, Min2

THEOREM GlbGreatest == \A c, d, l \in Clock : Leq(l, c) /\ Leq(l, d) => Leq(l, Glb(c, d))
  BY DEF Clock, Leq, Glb, Min2

THEOREM JoinCommutes == \A c, d \in Clock : Join(c, d) = Join(d, c)
  BY DEF Clock, Join, Max2

THEOREM JoinIdempotent == \A c \in Clock : Join(c, c) = c
<1> SUFFICES ASSUME NEW c \in Clock PROVE Join(c, c) = c
    OBVIOUS
<1>1. \A a \in Actors : Max2(c[a], c[a]) = c[a]
    BY DEF Clock, Max2
<1>2. c = [a \in Actors |-> c[a]]
    BY DEF Clock
<1> QED BY <1>1, <1>2 DEF Join

THEOREM JoinAssociative == \A c, d, e \in Clock : Join(Join(c, d), e) = Join(c, Join(d, e))
  BY DEF Clock, Join, Max2

THEOREM ForgetType == \A c, o \in Clock : Forget(c, o) \in Clock
  BY DEF Clock, Forget

THEOREM ForgetCompose == \A c, x, y \in Clock : Forget(Forget(c, x), y) = Forget(c, Join(x, y))
  BY DEF Clock, Forget, Join, Max2

THEOREM ForgetIdempotent == \A c, x \in Clock : Forget(Forget(c, x), x) = Forget(c, x)
  BY DEF Clock, Forget

THEOREM ForgetSelfEmpty == \A c \in Clock : \A a \in Actors : Forget(c, c)[a] = 0
  BY DEF Clock, Forget

THEOREM ForgetBelow == \A c, o \in Clock : Leq(Forget(c, o), c)
  BY DEF Clock, Leq, Forget

THEOREM BumpMonotone == \A c \in Clock : \A a \in Actors : \A n \in Nat : Leq(c, Bump(c, a, n))
  BY DEF Clock, Leq, Bump
=============================================================================
