\* q3: 3 replicas, 1 member, 3 API ops, per-actor FIFO delivery (removes overtake the adds they observed), merges
CONSTANTS
  NReps = 3
  NMembers = 1
  MaxOps = 3
  Regime = "fifo"
  UseMerge = TRUE
  UseSnap = FALSE
  UseDup = FALSE
  DumpReset = FALSE
  CmdSet = {"add", "rm"}
  ScriptName = "none"
  Reps <- MCReps
  Actors <- MCActors
  Members <- MCMembers
  ActorOf <- MCActorOf
INIT Init
NEXT Next
VIEW View
ACTION_CONSTRAINT Edge
INVARIANTS TypeOK RefinesA Converge MergeLaws Hybrid DupNoop StaleNoop ValidateOpOK ValidateMergeSym ValidateMergeOKorKF CtxOK FreshDot
CHECK_DEADLOCK FALSE
