\* GList with repeated elements: 2 replicas, 3 inserts incl. copies of the right neighbour, any delivery order, merges
CONSTANTS
  Kind = "glist"
  NReps = 2
  MaxOps = 3
  Regime = "any"
  UseMerge = TRUE
  UseSnap = FALSE
  UseDup = FALSE
  DupElems = TRUE
  BeyondLen = 0
  ScriptName = "none"
  Reps <- MCReps
  Actors <- MCActors
  ActorOf <- MCActorOf
INIT Init
NEXT Next
VIEW View
ACTION_CONSTRAINT Edge
INVARIANTS TypeOK UniqueIds RefinesA EachOnce Converge ClockOK DupNoop ValidateOpOK MergeLaws Hybrid
PROPERTY IndexSemantics
CHECK_DEADLOCK FALSE
