----------------------------- MODULE Trace_MVReg -----------------------------
(* impl -> spec for the standalone MVReg; see TraceCore.tla / Trace_Orswot.tla *)
EXTENDS SysMVReg, TLC, Json, IOUtils, SequencesExt

CONSTANTS NReps, NVals
MCReps == 1..NReps
MCActors == 1..NReps
MCVals == 1..NVals
MCActorOf == [r \in MCReps |-> r]

Rec == ndJsonDeserialize(IOEnv.TRACE)
VARIABLES l, bad
tvars == <<st, know, ops, snap, hist, l, bad>>

CmdOf(x) == [c |-> "write", v |-> x.v]
TC == INSTANCE TraceCore
TInit == TC!TraceInit /\ bad = <<>>

PostOf(p) == [vals |-> [i \in 1..Len(p.vals) |-> [c |-> p.vals[i][1], v |-> p.vals[i][2]]]]
SeqBag(s) == [v \in ToSet(s) |-> Cardinality({i \in 1..Len(s) : s[i] = v})]

Verdicts(e, r) ==
  LET post == PostOf(e.post)
      K == know'[r]
      b1 == IF MvBag(post) # MvBag(st'[r]) THEN <<[l |-> l, kind |-> "drift"]>> ELSE <<>>
      b2 == IF SeqBag(e.reads.read.val) # ExpValBag(ops', K) THEN <<[l |-> l, kind |-> "values"]>> ELSE <<>>
      b3 == IF e.reads.read.add # ExpClock(ops', K) \/ e.reads.read_ctx.add # ExpClock(ops', K)
            THEN <<[l |-> l, kind |-> "ctx"]>> ELSE <<>>
      b4 == IF MvBag(post) # ExpPairBag(ops', K) THEN <<[l |-> l, kind |-> "canon"]>> ELSE <<>>
      b5 == IF e.a = "gen" /\ (e.op[1].clock # ops'[Len(ops')].op.clock \/ e.op[1].val # ops'[Len(ops')].op.val)
            THEN <<[l |-> l, kind |-> "op"]>> ELSE <<>>
  IN b1 \o b2 \o b3 \o b4 \o b5

TStep == TC!TraceStep /\ bad' = bad \o (IF Rec[l].a = "panic" THEN <<[l |-> l, kind |-> "panic"]>> ELSE Verdicts(Rec[l], Rec[l].r))
Report == TC!TraceDone => PrintT(<<"VERDICT", ToJson([events |-> Len(Rec), bad |-> bad])>>)
Accepted == (TLCGet("stats").diameter - 1 = Len(Rec)) \/ PrintT(<<"TRACE-NOT-CONSUMED", TLCGet("stats").diameter - 1, Len(Rec)>>)
=============================================================================
