\* depth <= 3 over rationals {0, 1/2, 1} x markers {0,1}: 6 + 36 + 216 = 258 identifiers, 258 x 258 x 2 = 133 128 cases
CONSTANTS
  Depth = 3
  Rats <- MCRats3
  Marks = {0, 1}
INIT Init
NEXT Next
INVARIANTS OrderOK DenseOK Dump
CHECK_DEADLOCK FALSE
