\* scenario: A adds x then y; B (saw both) removes y and then x with the context of read() (the SAME clock);
\* then free exploration with 3 replicas: at C the remove of the absent member is pending when the remove of the present one arrives
CONSTANTS
  NReps = 3
  NMembers = 2
  MaxOps = 5
  Regime = "fifo"
  UseMerge = TRUE
  UseSnap = FALSE
  UseDup = FALSE
  DumpReset = FALSE
  CmdSet = {"add", "rm", "rmall"}
  ScriptName = "same_ctx_removes_rev"
  Reps <- MCReps
  Actors <- MCActors
  Members <- MCMembers
  ActorOf <- MCActorOf
INIT ScriptInit
NEXT Next
VIEW noopView
CONSTRAINT NoopBound1
ACTION_CONSTRAINT Edge
INVARIANTS TypeOK RefinesA Converge MergeLaws Hybrid DupNoop StaleNoop ValidateOpOK ValidateMergeSym ValidateMergeOKorKF CtxOK FreshDot
CHECK_DEADLOCK FALSE
