\* qsnap: 2 replicas, 2 values, 3 writes, merges, one stale snapshot, reset_remove with every clock of [Actors -> 0..2]
CONSTANTS
  NReps = 2
  NVals = 2
  MaxOps = 3
  Regime = "any"
  UseMerge = TRUE
  UseSnap = TRUE
  UseDup = FALSE
  DumpReset = TRUE
  ScriptName = "none"
  Reps <- MCReps
  Actors <- MCActors
  Vals <- MCVals
  ActorOf <- MCActorOf
INIT Init
NEXT Next
VIEW View
ACTION_CONSTRAINT Edge
INVARIANTS TypeOK RefinesA NoDuplicatePair Converge MergeLaws Hybrid DupNoop StaleNoop FreshDot ResetLaws
CHECK_DEADLOCK FALSE
