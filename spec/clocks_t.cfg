\* all ordered pairs of clocks over 3 actors x counters 0..3 (64 clocks, 4096 pairs; third clock quantified inside the invariants)
CONSTANTS
  NActors = 3
  MaxCounter = 3
  Actors <- MCActors
INIT Init
NEXT Next
INVARIANTS OrderOK LatticeOK ForgetOK DotOK Dump
CHECK_DEADLOCK FALSE
