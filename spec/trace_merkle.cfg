\* trace validation of MerkleReg: 4 replicas, 2 values; the trace decides every step
CONSTANTS
  NReps = 4
  NVals = 2
  MaxOps = 1000
  Regime = "any"
  UseMerge = TRUE
  UseSnap = TRUE
  UseDup = TRUE
  ChildMode = "any"
  Reps <- MCReps
  Vals <- MCVals
  ActorOf <- MCActorOf
INIT TInit
NEXT TStep
INVARIANT Report
POSTCONDITION Accepted
CHECK_DEADLOCK FALSE
