----------------------------- MODULE SysSimple -----------------------------
(***************************************************************************)
(* GCounter, PNCounter, LWWReg, MaxReg, MinReg and GSet (src/gcounter.rs,  *)
(* pncounter.rs, lwwreg.rs, maxreg.rs, minreg.rs, gset.rs): layer B, the   *)
(* replicated system (no delivery-order assumption: regime "any",          *)
(* duplicates, merges) and layer A = the exact aggregate of the ops        *)
(* learned.  Kind selects the type.                                        *)
(***************************************************************************)
EXTENDS Clocks, Integers

CONSTANTS Reps, ActorOf, MaxOps, Regime, UseMerge, UseSnap, UseDup,
          Kind,          \* "gcounter" | "pncounter" | "lww" | "max" | "min" | "gset"
          Vals,          \* values written / inserted (integers; may be negative for max/min)
          Steps,         \* step counts for inc_many / dec_many
          Markers        \* markers a writer may pick for LWWReg (see UniqueMarkers)
CONSTANT UniqueMarkers   \* TRUE: a marker is never reused (the documented contract of LWWReg)

VARIABLES st, know, ops, snap, hist

Sum(c) == LET RECURSIVE S(_)
              S(A) == IF A = {} THEN 0 ELSE LET a == CHOOSE a \in A : TRUE IN c[a] + S(A \ {a})
          IN S(Actors)

\* ---- layer B ---------------------------------------------------------------
InitSt ==
  CASE Kind = "gcounter"  -> Zero
    [] Kind = "pncounter" -> [p |-> Zero, n |-> Zero]
    [] Kind = "lww"       -> [val |-> 0, marker |-> 0]          \* LWWReg::default()
    [] Kind \in {"max", "min"} -> [val |-> 0]                    \* MaxReg::default() / MinReg::default()
    [] Kind = "gset"      -> {}

Apply(s, op) ==
  CASE Kind = "gcounter"  -> Bump(s, op.actor, op.counter)                         \* VClock::apply
    [] Kind = "pncounter" -> IF op.dir = "pos" THEN [s EXCEPT !.p = Bump(@, op.actor, op.counter)]
                             ELSE [s EXCEPT !.n = Bump(@, op.actor, op.counter)]
    [] Kind = "lww"       -> IF s.marker < op.marker THEN [val |-> op.val, marker |-> op.marker] ELSE s   \* update
    [] Kind = "max"       -> IF op.val > s.val THEN [val |-> op.val] ELSE s
    [] Kind = "min"       -> IF op.val < s.val THEN [val |-> op.val] ELSE s
    [] Kind = "gset"      -> s \cup {op.val}

Merge(a, b) ==
  CASE Kind = "gcounter"  -> Join(a, b)
    [] Kind = "pncounter" -> [p |-> Join(a.p, b.p), n |-> Join(a.n, b.n)]
    [] Kind = "lww"       -> Apply(a, b)                                           \* merge = update(val, marker)
    [] Kind \in {"max", "min"} -> Apply(a, b)
    [] Kind = "gset"      -> a \cup b

Read(s) ==
  CASE Kind = "gcounter"  -> Sum(s)
    [] Kind = "pncounter" -> Sum(s.p) - Sum(s.n)
    [] Kind = "lww"       -> <<s.val, s.marker>>
    [] Kind \in {"max", "min"} -> s.val
    [] Kind = "gset"      -> s

\* reset_remove (GCounter, PNCounter)
Reset(s, c) ==
  CASE Kind = "gcounter"  -> Forget(s, c)
    [] Kind = "pncounter" -> [p |-> Forget(s.p, c), n |-> Forget(s.n, c)]

\* validate_op / validate_merge
ValidateOp(s, op) ==
  IF Kind = "lww" /\ s.marker = op.marker /\ s.val # op.val THEN "ConflictingMarker" ELSE "Ok"
ValidateMerge(a, b) == IF Kind = "lww" THEN ValidateOp(a, b) ELSE "Ok"

Cmds(s, r) ==
  CASE Kind = "gcounter"  -> {[c |-> "inc", k |-> 1]} \cup {[c |-> "inc_many", k |-> k] : k \in Steps}
    [] Kind = "pncounter" -> {[c |-> "inc", k |-> 1], [c |-> "dec", k |-> 1]}
                             \cup {[c |-> "inc_many", k |-> k] : k \in Steps} \cup {[c |-> "dec_many", k |-> k] : k \in Steps}
    [] Kind = "lww"       -> {[c |-> "update", v |-> v, mk |-> mk] : v \in Vals, mk \in Markers}
    [] Kind \in {"max", "min"} -> {[c |-> "write", v |-> v] : v \in Vals}
    [] Kind = "gset"      -> {[c |-> "insert", v |-> v] : v \in Vals}

\* inc: self.inner.inc(actor) = dot(actor).inc(); inc_many(actor, k): Dot(actor, k + get(actor))
MkOp(s, r, cmd) ==
  LET a == ActorOf[r] IN
  CASE Kind = "gcounter"  -> [actor |-> a, counter |-> s[a] + cmd.k]
    [] Kind = "pncounter" -> IF cmd.c \in {"inc", "inc_many"}
                             THEN [actor |-> a, counter |-> s.p[a] + cmd.k, dir |-> "pos"]
                             ELSE [actor |-> a, counter |-> s.n[a] + cmd.k, dir |-> "neg"]
    [] Kind = "lww"       -> [val |-> cmd.v, marker |-> cmd.mk]
    [] Kind \in {"max", "min", "gset"} -> [val |-> cmd.v]

INSTANCE ReplCore

\* the documented contract of LWWReg: a marker is used exactly once (enforced on the
\* environment by the bounded models as an action constraint when UniqueMarkers)
MarkersDistinct == \A i, j \in 1..Len(ops) : i # j => ops[i].op.marker # ops[j].op.marker
MarkersOK == (Kind = "lww" /\ UniqueMarkers) => MarkersDistinct

\* ---- layer A ---------------------------------------------------------------
\* the largest running total learned from each actor
Total(L, K, a, dir) ==
  SetMax({L[i].op.counter : i \in {j \in K : L[j].op.actor = a /\ (Kind = "gcounter" \/ L[j].op.dir = dir)}})
TotalClock(L, K, dir) == [a \in Actors |-> Total(L, K, a, dir)]
MaxMarker(L, K) == SetMax({L[i].op.marker : i \in K})
ExpRead(L, K) ==
  CASE Kind = "gcounter"  -> Sum(TotalClock(L, K, "pos"))
    [] Kind = "pncounter" -> Sum(TotalClock(L, K, "pos")) - Sum(TotalClock(L, K, "neg"))
    [] Kind = "lww"       -> IF K = {} THEN <<0, 0>>
                             ELSE LET W == {i \in K : L[i].op.marker = MaxMarker(L, K)} IN
                                  IF Cardinality({L[i].op.val : i \in W}) > 1 THEN <<-1, MaxMarker(L, K)>>   \* marker reused (misuse): undetermined
                                  ELSE <<L[CHOOSE i \in W : TRUE].op.val, MaxMarker(L, K)>>
    [] Kind = "max"       -> LET S == {L[i].op.val : i \in K} \cup {0} IN CHOOSE x \in S : \A y \in S : y <= x
    [] Kind = "min"       -> LET S == {L[i].op.val : i \in K} \cup {0} IN CHOOSE x \in S : \A y \in S : x <= y
    [] Kind = "gset"      -> {L[i].op.val : i \in K}
\* the state that holds exactly that aggregate (all six types are canonical)
Canon(L, K) ==
  CASE Kind = "gcounter"  -> TotalClock(L, K, "pos")
    [] Kind = "pncounter" -> [p |-> TotalClock(L, K, "pos"), n |-> TotalClock(L, K, "neg")]
    [] Kind = "lww"       -> [val |-> ExpRead(L, K)[1], marker |-> ExpRead(L, K)[2]]
    [] Kind \in {"max", "min"} -> [val |-> ExpRead(L, K)]
    [] Kind = "gset"      -> ExpRead(L, K)
ExpValidate(L, K, i) ==
  IF Kind = "lww" /\ K # {} /\ MaxMarker(L, K) = L[i].op.marker
     /\ \E j \in K : L[j].op.marker = L[i].op.marker /\ L[j].op.val # L[i].op.val
  THEN "ConflictingMarker" ELSE "Ok"

\* ---- properties ---------------------------------------------------------------
AmbiguousL(L, K) ==
  Kind = "lww" /\ K # {} /\ Cardinality({L[i].op.val : i \in {j \in K : L[j].op.marker = MaxMarker(L, K)}}) > 1
Ambiguous(K) == AmbiguousL(ops, K)
\* C11 (and C01, C03, C08: no ordering assumption at all)
RefinesA == MarkersOK =>
  \A r \in Reps : Ambiguous(know[r]) \/ st[r] = Canon(ops, know[r])
ReadsOK == MarkersOK =>
  \A r \in Reps : Ambiguous(know[r]) \/ Read(st[r]) = ExpRead(ops, know[r])
States == {st[r] : r \in Reps} \cup (IF snap = <<>> THEN {} ELSE {snap[1]})
\* C02
MergeLaws ==
  ((Kind # "lww" \/ UniqueMarkers) /\ MarkersOK) =>
  \A a, b \in States :
     /\ Merge(a, b) = Merge(b, a) /\ Merge(a, a) = a
     /\ \A c \in States : Merge(Merge(a, b), c) = Merge(a, Merge(b, c))
\* C09
DupNoop == MarkersOK =>
  \A r \in Reps : \A i \in know[r] : Ambiguous(know[r]) \/ Apply(st[r], ops[i].op) = st[r]
StaleNoop == MarkersOK =>
  \A r, q \in Reps : (know[q] \subseteq know[r] /\ ~Ambiguous(know[r])) => Merge(st[r], st[q]) = st[r]
\* C16 / C17
ValidateOpOK == MarkersOK =>
  \A r \in Reps : \A i \in 1..Len(ops) : Ambiguous(know[r]) \/ ValidateOp(st[r], ops[i].op) = ExpValidate(ops, know[r], i)
ValidateMergeOK == (MarkersOK /\ UniqueMarkers) =>
  \A a, b \in States : ValidateMerge(a, b) = "Ok"
ValidateMergeSym == \A a, b \in States : ValidateMerge(a, b) = ValidateMerge(b, a)
\* a counter's value never decreases (GCounter), whatever arrives
Monotone == [][Kind = "gcounter" => \A r \in Reps : Read(st'[r]) >= Read(st[r])]_vars
\* no increment is lost or counted twice: once every op has arrived the counter is the arithmetic sum of the steps
AllArrived(r) == know[r] = 1..Len(ops)
\* C18
ClockU == [Actors -> 0..2]
ResetLaws ==
  Kind \in {"gcounter", "pncounter"} =>
  \A r \in Reps :
     /\ Reset(st[r], Zero) = st[r]
     /\ \A c \in ClockU : /\ Reset(Reset(st[r], c), c) = Reset(st[r], c)
                          /\ \A d \in ClockU : Reset(Reset(st[r], c), d) = Reset(st[r], Join(c, d))
=============================================================================
