------------------------------- MODULE MC_Map -------------------------------
EXTENDS SysMap, TLC, Json, SequencesExt

CONSTANTS NReps, NKeys, NMembers, NVals, DumpReset, DescName

MCReps == 1..NReps
MCActors == 1..NReps
MCKeys == 1..NKeys
MCMembers == 1..NMembers
MCVals == 1..NVals
MCActorOf == [r \in MCReps |-> r]
MCActorOfShared == [r \in MCReps |-> IF r <= 2 THEN 1 ELSE r]
MCDesc ==
  CASE DescName = "mv"     -> [t |-> "mv"]
    [] DescName = "or"     -> [t |-> "or"]
    [] DescName = "map_mv" -> [t |-> "map", of |-> [t |-> "mv"]]
    [] DescName = "map_or" -> [t |-> "map", of |-> [t |-> "or"]]
    [] DescName = "map_map_mv" -> [t |-> "map", of |-> [t |-> "map", of |-> [t |-> "mv"]]]

View == coreView

\* ---- scenario scripts (INIT ScriptInit) ------------------------------------------
CONSTANT ScriptName
RECURSIVE FirstCmd(_)
FirstCmd(d) == IF d.t = "mv" THEN [c |-> "write", v |-> 1]
               ELSE IF d.t = "or" THEN [c |-> "add", m |-> 1]
               ELSE [c |-> "up", k |-> 1, sub |-> FirstCmd(d.of)]
LeafCmd == FirstCmd(ValDesc)
Up(k) == [c |-> "up", k |-> k, sub |-> LeafCmd]
Script ==
  CASE ScriptName = "none" -> <<>>
    \* two key removes built from ONE whole-map read (same clock, different keys) by a third party
    [] ScriptName = "same_ctx_key_removes" ->
         << <<"gen", 1, Up(1)>>, <<"gen", 1, Up(2)>>, <<"dlv", 2, 1>>, <<"dlv", 2, 2>>,
            <<"gen", 2, [c |-> "rmv", k |-> 1]>>, <<"gen", 2, [c |-> "rmv", k |-> 2]>> >>
    \* the same with the removes issued in the opposite order: at a replica that has only the FIRST update, the remove of
    \* the absent key becomes pending first and the remove of the present key then meets an existing pending entry
    [] ScriptName = "same_ctx_key_removes_rev" ->
         << <<"gen", 1, Up(1)>>, <<"gen", 1, Up(2)>>, <<"dlv", 2, 1>>, <<"dlv", 2, 2>>,
            <<"gen", 2, [c |-> "rmv", k |-> 2]>>, <<"gen", 2, [c |-> "rmv", k |-> 1]>> >>
    \* the same actor updates a key twice around a concurrent remove that saw only the first update
    [] ScriptName = "update_rm_update" ->
         << <<"gen", 1, Up(1)>>, <<"dlv", 2, 1>>, <<"gen", 2, [c |-> "rm", k |-> 1]>>, <<"gen", 1, Up(1)>> >>
    \* depth 2: an inner key-remove whose context names two actors is pending inside the nested map while the
    \* outer key is partially removed (the nested reset_remove must keep the pending remove, reduced)
    [] ScriptName = "inner_pending_partial" ->
         << <<"gen", 1, Up(1)>>, <<"gen", 2, Up(1)>>, <<"gen", 2, [c |-> "rm", k |-> 1]>>,
            <<"dlv", 3, 1>>, <<"dlv", 3, 2>>, <<"gen", 3, [c |-> "up", k |-> 1, sub |-> [c |-> "rm", k |-> 1]]>> >>
    \* three key removes built from ONE whole-map read (same clock) for keys k1 < k2 < k3, issued outer keys first
    [] ScriptName = "three_key_removes" ->
         << <<"gen", 1, Up(2)>>, <<"dlv", 2, 1>>,
            <<"gen", 2, [c |-> "rmv", k |-> 1]>>, <<"gen", 2, [c |-> "rmv", k |-> 3]>>, <<"gen", 2, [c |-> "rmv", k |-> 2]>> >>
    \* a pending remove holding two keys under one clock, then a strictly newer remove of one of them,
    \* with an update of the OTHER key between the two clocks
    [] ScriptName = "newer_remove_of_one_key" ->
         << <<"gen", 1, Up(1)>>, <<"gen", 1, Up(2)>>, <<"dlv", 2, 1>>, <<"dlv", 2, 2>>,
            <<"gen", 2, [c |-> "rmv", k |-> 1]>>, <<"gen", 2, [c |-> "rmv", k |-> 2]>>,
            <<"gen", 1, Up(2)>>, <<"gen", 1, Up(1)>>, <<"dlv", 2, 5>>, <<"dlv", 2, 6>>,
            <<"gen", 2, [c |-> "rmv", k |-> 1]>> >>
    \* replica 4 knows four actors and holds two pending key removes whose contexts, {A:2} -> {k2} and {A:2,B:1} -> {k1},
    \* differ only in a dot it has seen; both wait for the same update (A:2), which replica 3 has not seen either
    [] ScriptName = "nested_pending_four_actors" ->
         << <<"gen", 1, Up(1)>>, <<"gen", 1, Up(2)>>, <<"dlv", 2, 1>>, <<"dlv", 2, 2>>,
            <<"gen", 2, [c |-> "rm", k |-> 2]>>, <<"gen", 2, Up(1)>>, <<"gen", 2, [c |-> "rmv", k |-> 1]>>,
            <<"gen", 3, Up(3)>>, <<"gen", 4, Up(3)>>,
            <<"dlv", 4, 1>>, <<"dlv", 4, 3>>, <<"dlv", 4, 4>>, <<"dlv", 4, 5>>, <<"dlv", 4, 6>> >>
    \* KF-18a shape for Map (regression of fix 4c1b5ee): replica 4 holds two pending key removes, {A:2} -> {k1} (built from
    \* the whole-map read) and {A:2,C:1} -> {k2}; reset_remove with {C:1} makes the two contexts collapse
    [] ScriptName = "collapsing_pending_keys" ->
         << <<"gen", 1, Up(1)>>, <<"gen", 1, Up(2)>>, <<"dlv", 2, 1>>, <<"dlv", 2, 2>>, <<"gen", 2, [c |-> "rmv", k |-> 1]>>,
            <<"dlv", 3, 1>>, <<"dlv", 3, 2>>, <<"gen", 3, Up(2)>>, <<"gen", 3, [c |-> "rm", k |-> 2]>>,
            <<"dlv", 4, 3>>, <<"dlv", 4, 4>>, <<"dlv", 4, 5>> >>
    \* MISUSE (replicas 1 and 2 share actor 1), Map<K,Orswot>: the nested half of validate_merge.  Replica 1 holds
    \* k -> {m1} witnessed by {1:1, 3:1}; replica 2 spends dot 1:1 on m2 under the same key: once its entry clock
    \* is concurrent with replica 1's (one more edit), the nested Orswot::validate_merge must flag the reused dot
    [] ScriptName = "nested_reused_dot" ->
         << <<"gen", 1, Up(1)>>, <<"gen", 3, Up(1)>>, <<"dlv", 1, 2>>,
            <<"gen", 2, [c |-> "up", k |-> 1, sub |-> [c |-> "add", m |-> 2]]>> >>
    \* two actors update one key concurrently and each removes it with its own get() context; only the updates are
    \* cross-delivered: each replica then holds the key witnessed by the OTHER actor's dot alone, and a merge of the two
    \* finds nothing in common (the key must go)
    [] ScriptName = "crossed_removes" ->
         << <<"gen", 1, Up(1)>>, <<"gen", 2, Up(1)>>, <<"gen", 1, [c |-> "rm", k |-> 1]>>, <<"gen", 2, [c |-> "rm", k |-> 1]>>,
            <<"dlv", 2, 1>>, <<"dlv", 1, 2>> >>
    \* the same misuse, continued until the two maps' TOP clocks are ordered ({1:3,3:1} above {1:2}) while the entry
    \* clocks of key 1 are still concurrent ({1:1,3:1} vs {1:2}): the nested check depends on the entry clocks only
    [] ScriptName = "nested_reused_dot_ordered" ->
         << <<"gen", 1, Up(1)>>, <<"gen", 3, Up(1)>>, <<"dlv", 1, 2>>,
            <<"gen", 2, [c |-> "up", k |-> 1, sub |-> [c |-> "add", m |-> 2]]>>, <<"gen", 2, Up(1)>>,
            <<"gen", 1, [c |-> "up", k |-> 2, sub |-> [c |-> "add", m |-> 1]]>>,
            <<"gen", 1, [c |-> "up", k |-> 2, sub |-> [c |-> "add", m |-> 1]]>> >>    \* twice: key 2 ends at dot 1:3, which replica 2 never spent
ScriptInit == InitAfter(Script)

\* JSON-friendly renderings: partial functions over Keys become total sequences of 0/1-element tuples
RECURSIVE ProjVal(_, _)
ProjVal(d, v) ==
  IF d.t = "mv" THEN [vals |-> [i \in 1..Len(v.vals) |-> <<v.vals[i].c, v.vals[i].v>>]]
  ELSE IF d.t = "or" THEN [clock |-> v.clock, entries |-> v.entries, deferred |-> v.deferred]
  ELSE [clock |-> v.clock,
        entries |-> [k \in Keys |-> IF Has(v, k)
                                     THEN <<[clock |-> v.entries[k].clock, val |-> ProjVal(d.of, v.entries[k].val)]>>
                                     ELSE <<>>],
        deferred |-> v.deferred]
ProjB(s) == ProjVal(TopDesc, s)

RECURSIVE SemJson(_, _)
SemJson(d, s) ==
  IF d.t = "mv" THEN [vals |-> LET ks == SetToSeq(DOMAIN s.vals) IN [i \in 1..Len(ks) |-> <<ks[i], s.vals[ks[i]]>>]]
  ELSE IF d.t = "or" THEN [members |-> s.members]
  ELSE [entries |-> [k \in Keys |-> IF k \in s.keys THEN <<SemJson(d.of, s.vals[k])>> ELSE <<>>]]

Who == LET a == Last(hist') IN IF a[1] = "save" THEN 0 ELSE a[2]

ExpA(r) ==
  LET K == know'[r] IN
  [sem   |-> SemJson(TopDesc, ExpSem(ops', K)),
   clock |-> ExpClock(ops', K),
   wit   |-> [k \in Keys |-> ExpWit(ops', K, k)],
   pend  |-> ExpPending(ops', K)]

CUSeq == SetToSeq(ClockU)

\* layer-B verdicts of the per-state obligations, as <<reads equal, state equal>>, so that the harness
\* can tell "the code does what the pinned algorithm does" (a listed finding) from a new deviation
Both(x, y) == <<REq(x, y), SEq(x, y)>>
Oblig(r) ==
  [dup   |-> [i \in 1..Len(ops') |-> IF i \in know'[r] THEN Both(Apply(st'[r], ops'[i].op), st'[r]) ELSE <<TRUE, TRUE>>],
   stale |-> [q \in Reps |-> IF know'[q] \subseteq know'[r] THEN Both(Merge(st'[r], st'[q]), st'[r]) ELSE <<TRUE, TRUE>>],
   idem  |-> [a \in Reps |-> Both(Merge(st'[a], st'[a]), st'[a])],
   comm  |-> [a \in Reps |-> [b \in Reps |->
                IF a < b THEN Both(Merge(st'[a], st'[b]), Merge(st'[b], st'[a])) ELSE <<TRUE, TRUE>>]],
   assoc |-> [a \in Reps |-> [b \in Reps |-> [c \in Reps |->
                IF a # b /\ a # c /\ b # c
                THEN Both(Merge(Merge(st'[a], st'[b]), st'[c]), Merge(st'[a], Merge(st'[b], st'[c])))
                ELSE <<TRUE, TRUE>>]]],
   eqk   |-> [q \in Reps |-> IF know'[q] = know'[r] THEN SEq(st'[r], st'[q]) ELSE TRUE],
   dupair |-> [q \in Reps |-> HasDupPair(TopDesc, st'[q])]]

Line ==
  LET r == Who IN
  [h   |-> hist',
   who |-> r,
   B   |-> ProjB(st'[r]),
   A   |-> ExpA(r),
   op  |-> IF Last(hist')[1] = "gen" THEN <<ops'[Len(ops')].op>> ELSE <<>>,
   vop |-> [q \in Reps |-> [i \in 1..Len(ops') |-> ExpValidate(ops', know'[q], i)]],
   vopB |-> [q \in Reps |-> [i \in 1..Len(ops') |-> MapValidateOp(ValDesc, st'[q], ops'[i].op)]],
   vm  |-> [q \in Reps |-> MapValidateMerge(ValDesc, st'[r], st'[q])],
   vmA |-> [q \in Reps |-> IF ActorOf = MCActorOf THEN "Ok" ELSE ExpVM(st'[r], st'[q])],
   ob  |-> Oblig(r),
   rs  |-> IF DumpReset
           THEN [i \in 1..Len(CUSeq) |-> <<CUSeq[i], ProjB(MapReset(ValDesc, st'[r], CUSeq[i]))>>]
           ELSE <<>>]

Edge == Who = 0 \/ PrintT(<<"E", ToJson(Line)>>)
=============================================================================
