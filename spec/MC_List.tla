------------------------------- MODULE MC_List -------------------------------
EXTENDS SysList, TLC, Json, SequencesExt

CONSTANTS NReps

MCReps == 1..NReps
MCActors == 1..NReps
MCActorOf == [r \in MCReps |-> r]

View == coreView

ProjB(s) ==
  IF Kind = "list" THEN [seq |-> [i \in 1..Len(s.seq) |-> <<s.seq[i].id, s.seq[i].val>>], clock |-> s.clock]
  ELSE [list |-> s]

Who == LET a == Last(hist') IN IF a[1] = "save" THEN 0 ELSE a[2]

Line ==
  LET r == Who K == know'[r] act == Last(hist') IN
  [h   |-> hist',
   who |-> r,
   B   |-> ProjB(st'[r]),
   A   |-> [seq |-> ExpSeq(ops', K),
            clock |-> IF Kind = "list" THEN ExpClock(ops', K) ELSE <<>>,
            \* for a local edit: where the sequential-list model puts it (C13)
            vec |-> IF act[1] = "gen" THEN <<VecModel(st[r], ActorOf[r], act[3])>> ELSE <<>>],
   op  |-> IF act[1] = "gen" THEN <<ops'[Len(ops')].op>> ELSE <<>>,
   vop |-> [q \in Reps |-> [i \in 1..Len(ops') |-> ExpValidate(ops', know'[q], i)]],
   vm  |-> [q \in Reps |-> "Ok"]]

Edge == Who = 0 \/ PrintT(<<"E", ToJson(Line)>>)
=============================================================================
