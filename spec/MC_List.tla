------------------------------- MODULE MC_List -------------------------------
EXTENDS SysList, TLC, Json, SequencesExt

CONSTANTS NReps

MCReps == 1..NReps
MCActors == 1..NReps
MCActorOf == [r \in MCReps |-> r]

View == coreView

\* ---- scenario scripts (INIT ScriptInit) ------------------------------------------
CONSTANT ScriptName
Ins(i, v) == [c |-> "ins", i |-> i, v |-> v]
Script ==
  CASE ScriptName = "none" -> <<>>
    \* identifiers of depth 3: a || b, then s || t between them, then y between s and t (3 actors, 5 inserts)
    [] ScriptName = "deep_paths" ->
         << <<"gen", 1, Ins(0, 11)>>, <<"gen", 2, Ins(0, 21)>>,
            <<"dlv", 2, 1>>, <<"dlv", 1, 2>>, <<"dlv", 3, 1>>, <<"dlv", 3, 2>>,
            <<"gen", 2, Ins(1, 22)>>, <<"gen", 3, Ins(1, 31)>>,
            <<"dlv", 3, 3>>, <<"dlv", 2, 4>>,
            <<"gen", 3, Ins(2, 32)>> >>
    \* an identifier whose OUTER marker is another actor's second dot: a and b each append twice concurrently (a.2 and
    \* b.2 share a rational), c inserts between them -> path <<(1, b.2), (0, c.1)>>; replica 1 has heard of neither b nor c
    [] ScriptName = "foreign_outer_marker" ->
         << <<"gen", 1, Ins(0, 11)>>, <<"gen", 1, Ins(1, 12)>>, <<"gen", 2, Ins(0, 21)>>, <<"gen", 2, Ins(1, 22)>>,
            <<"dlv", 3, 1>>, <<"dlv", 3, 2>>, <<"dlv", 3, 3>>, <<"dlv", 3, 4>>, <<"gen", 3, Ins(3, 31)>> >>
ScriptInit == InitAfter(Script)

ProjB(s) ==
  IF Kind = "list" THEN [seq |-> [i \in 1..Len(s.seq) |-> <<s.seq[i].id, s.seq[i].val>>], clock |-> s.clock]
  ELSE [list |-> s]

Who == LET a == Last(hist') IN IF a[1] = "save" THEN 0 ELSE a[2]

Line ==
  LET r == Who K == know'[r] act == Last(hist') IN
  [h   |-> hist',
   who |-> r,
   B   |-> ProjB(st'[r]),
   A   |-> [seq |-> ExpSeq(ops', K),
            clock |-> IF Kind = "list" THEN ExpClock(ops', K) ELSE <<>>,
            \* for a local edit: where the sequential-list model puts it (C13)
            vec |-> IF act[1] = "gen" THEN <<VecModel(st[r], ActorOf[r], act[3])>> ELSE <<>>],
   op  |-> IF act[1] = "gen" THEN <<ops'[Len(ops')].op>> ELSE <<>>,
   vop |-> [q \in Reps |-> [i \in 1..Len(ops') |-> ExpValidate(ops', know'[q], i)]],
   vm  |-> [q \in Reps |-> "Ok"]]

Edge == Who = 0 \/ PrintT(<<"E", ToJson(Line)>>)
=============================================================================
