------------------------------ MODULE MC_MVReg ------------------------------
EXTENDS SysMVReg, TLC, Json, SequencesExt

CONSTANTS NReps, NVals, DumpReset

MCReps == 1..NReps
MCActors == 1..NReps
MCVals == 1..NVals
MCActorOf == [r \in MCReps |-> r]

View == coreView

\* ---- scenario scripts (INIT ScriptInit) ------------------------------------------
CONSTANT ScriptName
W(v) == [c |-> "write", v |-> v]
Script ==
  CASE ScriptName = "none" -> <<>>
    \* four replicas write concurrently: value clocks over four distinct actors (read context = join of four clocks)
    [] ScriptName = "four_writers" ->
         << <<"gen", 1, W(1)>>, <<"gen", 2, W(1)>>, <<"gen", 3, W(1)>>, <<"gen", 4, W(1)>> >>
    \* one write seen by all four replicas, then free play: value clocks that share their first actor and differ in the
    \* middle ({1,2,4} / {1,3,4}-shaped siblings) are reachable with three more writes
    [] ScriptName = "seen_by_all" ->
         << <<"gen", 1, W(1)>>, <<"dlv", 2, 1>>, <<"dlv", 3, 1>>, <<"dlv", 4, 1>> >>
ScriptInit == InitAfter(Script)

\* the Vec as a sequence of <<clock, value>> (compared as a bag by the harness)
ProjB(s) == [vals |-> [i \in 1..Len(s.vals) |-> <<s.vals[i].c, s.vals[i].v>>]]

Who == LET a == Last(hist') IN IF a[1] = "save" THEN 0 ELSE a[2]

BagToSeq(b) == LET ks == SetToSeq(DOMAIN b) IN [i \in 1..Len(ks) |-> <<ks[i], b[ks[i]]>>]

ExpA(r) ==
  LET K == know'[r] IN
  [vals  |-> BagToSeq(ExpValBag(ops', K)),
   clock |-> ExpClock(ops', K),
   pairs |-> LET b == ExpPairBag(ops', K) ks == SetToSeq(DOMAIN b)
             IN [i \in 1..Len(ks) |-> <<ks[i].c, ks[i].v, b[ks[i]]>>]]

CUSeq == SetToSeq(ClockU)

Line ==
  LET r == Who IN
  [h   |-> hist',
   who |-> r,
   B   |-> ProjB(st'[r]),
   A   |-> ExpA(r),
   op  |-> IF Last(hist')[1] = "gen" THEN <<ops'[Len(ops')].op>> ELSE <<>>,
   vop |-> [q \in Reps |-> [i \in 1..Len(ops') |-> "Ok"]],
   vm  |-> [q \in Reps |-> "Ok"],
   rs  |-> IF DumpReset
           THEN [i \in 1..Len(CUSeq) |-> <<CUSeq[i], ProjB(MvReset(st'[r], CUSeq[i]))>>]
           ELSE <<>>]

Edge == Who = 0 \/ PrintT(<<"E", ToJson(Line)>>)
=============================================================================
