------------------------------ MODULE MC_MVReg ------------------------------
EXTENDS SysMVReg, TLC, Json, SequencesExt

CONSTANTS NReps, NVals, DumpReset

MCReps == 1..NReps
MCActors == 1..NReps
MCVals == 1..NVals
MCActorOf == [r \in MCReps |-> r]

View == coreView

\* the Vec as a sequence of <<clock, value>> (compared as a bag by the harness)
ProjB(s) == [vals |-> [i \in 1..Len(s.vals) |-> <<s.vals[i].c, s.vals[i].v>>]]

Who == LET a == Last(hist') IN IF a[1] = "save" THEN 0 ELSE a[2]

BagToSeq(b) == LET ks == SetToSeq(DOMAIN b) IN [i \in 1..Len(ks) |-> <<ks[i], b[ks[i]]>>]

ExpA(r) ==
  LET K == know'[r] IN
  [vals  |-> BagToSeq(ExpValBag(ops', K)),
   clock |-> ExpClock(ops', K),
   pairs |-> LET b == ExpPairBag(ops', K) ks == SetToSeq(DOMAIN b)
             IN [i \in 1..Len(ks) |-> <<ks[i].c, ks[i].v, b[ks[i]]>>]]

CUSeq == SetToSeq(ClockU)

Line ==
  LET r == Who IN
  [h   |-> hist',
   who |-> r,
   B   |-> ProjB(st'[r]),
   A   |-> ExpA(r),
   op  |-> IF Last(hist')[1] = "gen" THEN <<ops'[Len(ops')].op>> ELSE <<>>,
   vop |-> [q \in Reps |-> [i \in 1..Len(ops') |-> "Ok"]],
   vm  |-> [q \in Reps |-> "Ok"],
   rs  |-> IF DumpReset
           THEN [i \in 1..Len(CUSeq) |-> <<CUSeq[i], ProjB(MvReset(st'[r], CUSeq[i]))>>]
           ELSE <<>>]

Edge == Who = 0 \/ PrintT(<<"E", ToJson(Line)>>)
=============================================================================
