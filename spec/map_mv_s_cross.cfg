\* scenario Map<K,MVReg>: two actors update one key and each removes it with its own context, updates cross-delivered; then deliveries, merges among 3 replicas (also what follows a no-op step: VIEW noopView)
CONSTANTS
  DescName = "mv"
  NReps = 3
  NKeys = 1
  NMembers = 1
  NVals = 1
  MaxOps = 4
  Regime = "fifo"
  UseMerge = TRUE
  UseSnap = FALSE
  UseDup = FALSE
  RmVia = FALSE
  DumpReset = FALSE
  ScriptName = "crossed_removes"
  Reps <- MCReps
  Actors <- MCActors
  Keys <- MCKeys
  Members <- MCMembers
  MvVals <- MCVals
  ActorOf <- MCActorOf
  ValDesc <- MCDesc
INIT ScriptInit
NEXT Next
VIEW noopView
CONSTRAINT NoopBound1
ACTION_CONSTRAINT Edge
INVARIANTS TypeOK KeysOK TopCtxOK FreshDot
CHECK_DEADLOCK FALSE
