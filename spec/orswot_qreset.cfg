\* qreset: reset_remove with every clock of [Actors -> 0..2] in every state reached (2 replicas, 2 members, 3 ops)
CONSTANTS
  NReps = 2
  NMembers = 2
  MaxOps = 3
  Regime = "fifo"
  UseMerge = TRUE
  UseSnap = FALSE
  UseDup = FALSE
  DumpReset = TRUE
  CmdSet = {"add", "rm"}
  ScriptName = "none"
  Reps <- MCReps
  Actors <- MCActors
  Members <- MCMembers
  ActorOf <- MCActorOf
INIT Init
NEXT Next
VIEW View
ACTION_CONSTRAINT Edge
INVARIANTS TypeOK RefinesA Converge MergeLaws Hybrid DupNoop StaleNoop ValidateOpOK ValidateMergeSym ValidateMergeOKorKF CtxOK FreshDot ResetLaws
CHECK_DEADLOCK FALSE
