------------------------------- MODULE Clocks -------------------------------
(***************************************************************************)
(* Vector clocks and dots, as `src/vclock.rs` / `src/dot.rs` implement     *)
(* them, over a finite set of actors.                                      *)
(*                                                                         *)
(* Representation: a clock is a TOTAL function Actors -> Nat; 0 stands for *)
(* "actor absent from the BTreeMap".  The library never stores a zero      *)
(* counter (checked on the real code by the harness, property C10), so the *)
(* two views coincide.  The finite-map view needed to talk about stored    *)
(* zeros lives in MC_Clocks.tla.                                           *)
(*                                                                         *)
(* Every operator below is a transcription of one method; the comment      *)
(* names it.  Declarative counterparts (Leq, lub, glb) are what the        *)
(* methods must equal; MC_Clocks checks that and ClocksProofs proves the   *)
(* lattice laws of the declarative operators for unbounded counters.       *)
(***************************************************************************)
EXTENDS Naturals, FiniteSets, Sequences

CONSTANTS Actors        \* finite set of actor identifiers (small integers)

Zero == [a \in Actors |-> 0]
IsZero(c) == \A a \in Actors : c[a] = 0                \* VClock::is_empty

\* ---- declarative order -------------------------------------------------
Leq(c, d) == \A a \in Actors : c[a] <= d[a]
Lt(c, d)  == Leq(c, d) /\ c # d
Max2(x, y) == IF x >= y THEN x ELSE y
Min2(x, y) == IF x <= y THEN x ELSE y

\* ---- transcriptions ----------------------------------------------------
\* VClock::partial_cmp: Equal / Greater (other all <= self) / Less / None
Cmp(c, d) ==
  IF c = d THEN "EQ"
  ELSE IF \A a \in Actors : d[a] > 0 => c[a] >= d[a] THEN "GT"
  ELSE IF \A a \in Actors : c[a] > 0 => d[a] >= c[a] THEN "LT"
  ELSE "NONE"
Concurrent(c, d) == Cmp(c, d) = "NONE"                   \* VClock::concurrent
\* `a >= b` on clocks (PartialOrd::ge): partial_cmp is Greater or Equal
Ge(c, d) == Cmp(c, d) \in {"GT", "EQ"}

\* VClock::apply(dot): keep the max
Bump(c, a, n) == [c EXCEPT ![a] = IF @ < n THEN n ELSE @]
\* VClock::inc(actor): the next dot of that actor (does not mutate)
IncCounter(c, a) == c[a] + 1
\* VClock::merge: apply every dot of the other clock
Join(c, d) == [a \in Actors |-> Max2(c[a], d[a])]
\* VClock::glb
Glb(c, d) == [a \in Actors |-> Min2(c[a], d[a])]
\* VClock::reset_remove(other): forget every entry that `other` covers
Forget(c, o) == [a \in Actors |-> IF o[a] > 0 /\ o[a] >= c[a] THEN 0 ELSE c[a]]
\* VClock::clone_without(base)
CloneWithout(c, base) == Forget(c, base)
\* VClock::intersection(left, right): equal entries only
Inter(c, d) == [a \in Actors |-> IF c[a] > 0 /\ c[a] = d[a] THEN c[a] ELSE 0]
\* VClock::validate_op(dot)
ClockValidate(c, a, n) == IF n > c[a] + 1 THEN "DotRange" ELSE "Ok"
\* VClock::from(dot)
OfDot(a, n) == [Zero EXCEPT ![a] = n]

\* Dot partial order (src/dot.rs): comparable only for the same actor
DotCmp(a1, n1, a2, n2) ==
  IF a1 # a2 THEN "NONE" ELSE IF n1 < n2 THEN "LT" ELSE IF n1 > n2 THEN "GT" ELSE "EQ"

\* ---- small helpers shared by the CRDT modules ---------------------------
SeqRange(s) == {s[i] : i \in 1..Len(s)}
EmptyFn == [x \in {} |-> {}]
SetMax(S) == IF S = {} THEN 0 ELSE CHOOSE x \in S : \A y \in S : y <= x

\* A deferred table (HashMap<VClock, Set>) is a set of <<clock, elements>>
\* pairs with pairwise distinct clocks.  DefInsert is the
\* "get_mut(&clock).extend(...) else insert" idiom of apply_rm/apply_keyset_rm.
DefInsert(def, c, ms) ==
  IF \E p \in def : p[1] = c
  THEN {IF p[1] = c THEN <<c, p[2] \cup ms>> ELSE p : p \in def}
  ELSE def \cup {<<c, ms>>}
=============================================================================
