\* trace validation of Map with value descriptor "mv": 4 replicas, 3 keys, 2 members, 2 values; the trace decides every step
CONSTANTS
  DescName = "mv"
  NReps = 4
  NKeys = 3
  NMembers = 2
  NVals = 2
  RmVia = TRUE
  MaxOps = 1000
  Regime = "any"
  UseMerge = TRUE
  UseSnap = TRUE
  UseDup = TRUE
  Reps <- MCReps
  Actors <- MCActors
  Keys <- MCKeys
  Members <- MCMembers
  MvVals <- MCVals
  ActorOf <- MCActorOf
  ValDesc <- MCDesc
INIT TInit
NEXT TStep
INVARIANT Report
POSTCONDITION Accepted
CHECK_DEADLOCK FALSE
