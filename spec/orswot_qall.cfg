\* qall: 2 replicas, 2 members, 3 API ops, every command incl. add_all / rm_all / rm of an absent member, merges
CONSTANTS
  NReps = 2
  NMembers = 2
  MaxOps = 3
  Regime = "fifo"
  UseMerge = TRUE
  UseSnap = FALSE
  UseDup = FALSE
  DumpReset = FALSE
  CmdSet = {"add", "rm", "addall", "rmall", "rmabsent"}
  ScriptName = "none"
  Reps <- MCReps
  Actors <- MCActors
  Members <- MCMembers
  ActorOf <- MCActorOf
INIT Init
NEXT Next
VIEW View
ACTION_CONSTRAINT Edge
INVARIANTS TypeOK RefinesA Converge MergeLaws Hybrid DupNoop StaleNoop ValidateOpOK ValidateMergeSym ValidateMergeOKorKF CtxOK FreshDot
CHECK_DEADLOCK FALSE
