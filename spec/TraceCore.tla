------------------------------ MODULE TraceCore ------------------------------
(***************************************************************************)
(* impl -> spec, the engine-independent part.  A trace recorded from the   *)
(* real code by the random driver (harness `drive`) is one JSON object per *)
(* API call: a = action, r = replica, x = argument (command record / op    *)
(* index / peer), op = the op the API built, post = projection of the      *)
(* replica's internal state after the call, reads = its reads.             *)
(* TraceStep performs the SPEC's action with the logged arguments (the op  *)
(* of a "gen" event is rebuilt by the spec's MkOp, never taken from the    *)
(* log).  It never blocks (a panic of the library is an event too); the engine's Trace_* module appends to `bad`    *)
(* every event at which the recording disagrees with the spec.             *)
(* Instantiated by implicit substitution inside a module that already      *)
(* contains the system (INSTANCE ReplCore) and defines Rec and CmdOf.      *)
(***************************************************************************)
EXTENDS Naturals, Sequences, FiniteSets

CONSTANTS Reps, InitSt, MkOp(_, _, _), Apply(_, _), Merge(_, _),
          Rec,          \* the deserialised trace
          CmdOf(_)      \* JSON command -> the spec's command record
VARIABLES st, know, ops, snap, hist, l

TraceInit ==
  /\ st = [r \in Reps |-> InitSt] /\ know = [r \in Reps |-> {}] /\ ops = <<>> /\ snap = <<>> /\ hist = <<>>
  /\ l = 1

TraceStep ==
  /\ l <= Len(Rec)
  /\ l' = l + 1
  /\ hist' = hist
  /\ LET e == Rec[l]  r == e.r IN
     \/ /\ e.a = "gen"
        /\ LET cmd == CmdOf(e.x)  op == MkOp(st[r], r, cmd) IN
             /\ ops' = Append(ops, [op |-> op, author |-> r, deps |-> know[r], cmd |-> cmd])
             /\ st' = [st EXCEPT ![r] = Apply(@, op)]
             /\ know' = [know EXCEPT ![r] = @ \cup {Len(ops) + 1}]
             /\ UNCHANGED snap
     \/ /\ e.a \in {"dlv", "dup"}
        /\ st' = [st EXCEPT ![r] = Apply(@, ops[e.x].op)]
        /\ know' = [know EXCEPT ![r] = @ \cup {e.x}]
        /\ UNCHANGED <<ops, snap>>
     \/ /\ e.a = "mrg"
        /\ st' = [st EXCEPT ![r] = Merge(@, st[e.x])]
        /\ know' = [know EXCEPT ![r] = @ \cup know[e.x]]
        /\ UNCHANGED <<ops, snap>>
     \/ /\ e.a = "save"
        /\ snap' = <<st[r], know[r]>>
        /\ UNCHANGED <<st, know, ops>>
     \/ /\ e.a = "mrgsnap"
        /\ st' = [st EXCEPT ![r] = Merge(@, snap[1])]
        /\ know' = [know EXCEPT ![r] = @ \cup snap[2]]
        /\ UNCHANGED <<ops, snap>>
     \/ /\ e.a = "panic"                       \* the library panicked inside the call (the driver abandons the history):
        /\ UNCHANGED <<st, know, ops, snap>>    \* nothing to bind; the engine's Trace_* module records it in `bad`
     \/ /\ e.a = "reset"                       \* a new history starts
        /\ st' = [q \in Reps |-> InitSt] /\ know' = [q \in Reps |-> {}] /\ ops' = <<>> /\ snap' = <<>>

TraceDone == l = Len(Rec) + 1
=============================================================================
