\* all ordered pairs of clocks over 3 actors x counters 0..2 (27 clocks, 729 pairs; third clock quantified inside the invariants)
CONSTANTS
  NActors = 3
  MaxCounter = 2
  Actors <- MCActors
INIT Init
NEXT Next
INVARIANTS OrderOK LatticeOK ForgetOK DotOK Dump
CHECK_DEADLOCK FALSE
