----------------------------- MODULE MC_Clocks -----------------------------
(***************************************************************************)
(* Property C10 on the specification: the implementation-shaped clock      *)
(* operators of Clocks.tla (transcriptions of src/vclock.rs) equal their   *)
(* declarative pointwise definitions on EVERY pair/triple of clocks of a   *)
(* bounded universe, and every case is printed as a test vector that the   *)
(* harness evaluates on the real VClock / Dot.                             *)
(* One TLC state = one ordered pair <<c, d>> of clocks.                    *)
(***************************************************************************)
EXTENDS Clocks, TLC, Json

CONSTANTS NActors, MaxCounter

MCActors == 1..NActors
ClockU == [Actors -> 0..MaxCounter]

VARIABLES c, d
vars == <<c, d>>
Init == c \in ClockU /\ d \in ClockU
Next == UNCHANGED vars

\* ---- declarative (pointwise) definitions: layer A ------------------------
LeqD(x, y) == \A a \in Actors : x[a] <= y[a]
CmpD(x, y) == IF x = y THEN "EQ" ELSE IF LeqD(y, x) THEN "GT" ELSE IF LeqD(x, y) THEN "LT" ELSE "NONE"
IsUB(u, x, y) == LeqD(x, u) /\ LeqD(y, u)
IsLB(l, x, y) == LeqD(l, x) /\ LeqD(l, y)
ForgetD(x, o) == [a \in Actors |-> IF x[a] > o[a] THEN x[a] ELSE 0]     \* keeps exactly the entries strictly newer
InterD(x, y) == [a \in Actors |-> IF x[a] = y[a] THEN x[a] ELSE 0]      \* keeps exactly the equal entries
ValidateD(x, a, n) == IF n > x[a] + 1 THEN "DotRange" ELSE "Ok"         \* accepts a dot iff it does not skip a counter

\* ---- C10 on the specification ---------------------------------------------
OrderOK ==
  /\ Cmp(c, d) = CmpD(c, d)
  /\ Cmp(c, c) = "EQ"                                                    \* reflexive
  /\ (LeqD(c, d) /\ LeqD(d, c)) => c = d                                 \* antisymmetric
  /\ \A e \in ClockU : (LeqD(c, d) /\ LeqD(d, e)) => LeqD(c, e)          \* transitive
  /\ Concurrent(c, d) <=> (~LeqD(c, d) /\ ~LeqD(d, c))                   \* concurrent iff neither dominates
  /\ Ge(c, d) <=> LeqD(d, c)
LatticeOK ==
  /\ IsUB(Join(c, d), c, d) /\ \A u \in ClockU : IsUB(u, c, d) => LeqD(Join(c, d), u)   \* least upper bound
  /\ IsLB(Glb(c, d), c, d) /\ \A l \in ClockU : IsLB(l, c, d) => LeqD(l, Glb(c, d))     \* greatest lower bound
  /\ Join(c, d) = Join(d, c) /\ Glb(c, d) = Glb(d, c) /\ Join(c, c) = c
  /\ \A e \in ClockU : Join(Join(c, d), e) = Join(c, Join(d, e))
ForgetOK ==
  /\ Forget(c, d) = ForgetD(c, d)
  /\ Forget(c, Zero) = c /\ IsZero(Forget(c, c))
  /\ \A e \in ClockU : Forget(Forget(c, d), e) = Forget(c, Join(d, e))
  /\ IsZero(Forget(c, d)) <=> LeqD(c, d)
  /\ Inter(c, d) = InterD(c, d)
DotOK ==
  \A a \in Actors : \A n \in 0..(MaxCounter + 2) :
     /\ LeqD(c, Bump(c, a, n))                                           \* apply is monotone
     /\ Bump(c, a, n)[a] = Max2(c[a], n) /\ \A b \in Actors \ {a} : Bump(c, a, n)[b] = c[b]
     /\ ClockValidate(c, a, n) = ValidateD(c, a, n)
     /\ Lt(c, Bump(c, a, IncCounter(c, a)))                              \* inc then apply strictly grows

\* ---- the vectors ---------------------------------------------------------------
DotsU == {<<a, n>> : a \in Actors, n \in 0..(MaxCounter + 2)}
DSeq == [a \in Actors |-> [n \in 1..(MaxCounter + 3) |-> n - 1]]
\* the lattices of the simple types live on the same universe: a GCounter is a clock read as a sum, a PNCounter a pair
\* of them, a GSet the support of a clock, Max/MinReg one coordinate
RECURSIVE SumTo(_, _)
SumTo(f, n) == IF n = 0 THEN 0 ELSE f[n] + SumTo(f, n - 1)
Total(f) == SumTo(f, NActors)
Vector ==
  [c |-> c, d |-> d,
   gread |-> Total([a \in Actors |-> Max2(c[a], d[a])]),                     \* GCounter(c) merged with GCounter(d)
   pnread |-> Total([a \in Actors |-> Max2(c[a], d[a])]) - Total(c),          \* PNCounter(p = c, n = 0) merged with PNCounter(p = d, n = c)
   gset |-> [a \in Actors |-> IF Max2(c[a], d[a]) > 0 THEN 1 ELSE 0],         \* GSet(support c) merged with GSet(support d)
   maxv |-> Max2(c[1], d[1]), minv |-> Min2(c[1], d[1]),                      \* MaxReg / MinReg holding c[1], d[1]
   cmp |-> CmpD(c, d), conc |-> (~LeqD(c, d) /\ ~LeqD(d, c)),
   join |-> [a \in Actors |-> Max2(c[a], d[a])],
   glb |-> [a \in Actors |-> Min2(c[a], d[a])],
   forget |-> ForgetD(c, d),
   inter |-> InterD(c, d),
   \* per dot <<a, n>> (n = 0..MaxCounter+2): the clock after apply, validate_op, and the dot partial order
   apply |-> [a \in Actors |-> [i \in 1..(MaxCounter + 3) |-> [c EXCEPT ![a] = Max2(@, i - 1)]]],
   vop |-> [a \in Actors |-> [i \in 1..(MaxCounter + 3) |-> ValidateD(c, a, i - 1)]],
   inc |-> [a \in Actors |-> c[a] + 1],
   \* VClock::from(dot): the clock that has seen exactly the events of that dot's actor up to the dot
   single |-> [a \in Actors |-> [i \in 1..(MaxCounter + 3) |-> [b \in Actors |-> IF b = a THEN i - 1 ELSE 0]]],
   \* Dot partial order between the dot of actor a in c and the dot of actor b in d
   dotcmp |-> [a \in Actors |-> [b \in Actors |-> DotCmp(a, c[a], b, d[b])]]]
Dump == PrintT(<<"E", ToJson(Vector)>>)
=============================================================================
