------------------------------ MODULE ListCrdt ------------------------------
(***************************************************************************)
(* Layer B for `src/list.rs` (List) and `src/glist.rs` (GList).            *)
(*                                                                         *)
(* List state: [seq, clock]; seq is the BTreeMap<Identifier, T> as a       *)
(* sequence of [id, val] sorted by the identifier order; markers are       *)
(* OrdDot = <<actor, counter>> (ordered by actor first).                   *)
(* List ops : [kind |-> "ins", id, val]                                    *)
(*            [kind |-> "del", id, actor, counter]                         *)
(* GList state: the BTreeSet<Identifier<T>> as a sorted sequence of ids;   *)
(* the marker of a node IS the element.  GList op: [id].                   *)
(***************************************************************************)
EXTENDS Clocks, Ident

\* Ord for OrdDot (derived: actor, then counter)
DotLt(x, y) == x[1] < y[1] \/ (x[1] = y[1] /\ x[2] < y[2])
LCmp(a, b) == IdCmpWith(DotLt, a, b)
LBetween(lo, hi, m) == BetweenOpt(DotLt, lo, hi, m)

ListDefault == [seq |-> <<>>, clock |-> Zero]

\* position at which an id is (or would be inserted) in a sorted sequence of entries
InsertSorted(s, e, CmpF(_, _)) ==
  LET n == Cardinality({i \in 1..Len(s) : CmpF(s[i].id, e.id) < 0})
  IN SubSeq(s, 1, n) \o <<e>> \o SubSeq(s, n + 1, Len(s))
HasId(s, id) == \E i \in 1..Len(s) : s[i].id = id

OpDot(op) == IF op.kind = "ins" THEN op.id[Len(op.id)][2] ELSE <<op.actor, op.counter>>   \* Op::dot

\* CmRDT::apply (list.rs:263-282)
ListApply(s, op) ==
  LET d == OpDot(op) IN
  IF d[2] <= s.clock[d[1]] THEN s
  ELSE LET c2 == Bump(s.clock, d[1], d[2]) IN
       IF op.kind = "ins"
       THEN [seq |-> IF HasId(s.seq, op.id) THEN s.seq                       \* entry(id).or_insert(val)
                     ELSE InsertSorted(s.seq, [id |-> op.id, val |-> op.val], LCmp),
             clock |-> c2]
       ELSE [seq |-> SelectSeq(s.seq, LAMBDA e : e.id # op.id), clock |-> c2]

\* CmRDT::validate_op (list.rs:259-261)
ListValidateOp(s, op) == LET d == OpDot(op) IN ClockValidate(s.clock, d[1], d[2])

\* List::insert_index (list.rs:119-137): clamp, neighbours ix-1 / ix, next dot as marker
ListInsertIndex(s, ix0, val, a) ==
  LET ix == IF ix0 > Len(s.seq) THEN Len(s.seq) ELSE ix0
      prev == IF ix >= 1 THEN s.seq[ix].id ELSE <<>>                         \* keys().skip(ix-1).next(): 1-based ix
      next == IF ix + 1 <= Len(s.seq) THEN s.seq[ix + 1].id ELSE <<>>
      dot == <<a, IncCounter(s.clock, a)>>
  IN [kind |-> "ins", id |-> LBetween(prev, next, dot), val |-> val]
ListAppend(s, val, a) == ListInsertIndex(s, Len(s.seq), val, a)
\* List::delete_index (list.rs:147-152), only defined for ix < len (0-based ix)
ListDeleteIndex(s, ix, a) ==
  [kind |-> "del", id |-> s.seq[ix + 1].id, actor |-> a, counter |-> IncCounter(s.clock, a)]

ListRead(s) == [i \in 1..Len(s.seq) |-> s.seq[i].val]

\* ---- GList ------------------------------------------------------------------
GCmp(a, b) == IdCmpWith(IntLt, a, b)
GBetween(lo, hi, m) == BetweenOpt(IntLt, lo, hi, m)
GListDefault == <<>>
GHas(s, id) == \E i \in 1..Len(s) : s[i] = id
GListApply(s, op) ==
  IF GHas(s, op.id) THEN s
  ELSE LET n == Cardinality({i \in 1..Len(s) : GCmp(s[i], op.id) < 0})
       IN SubSeq(s, 1, n) \o <<op.id>> \o SubSeq(s, n + 1, Len(s))
RECURSIVE GListMergeSeq(_, _)
GListMergeSeq(s, o) == IF o = <<>> THEN s ELSE GListMergeSeq(GListApply(s, [id |-> Head(o)]), Tail(o))
GListMerge(s, o) == GListMergeSeq(s, o)
\* insert_after(low, elem): high = the next element after low; insert_before(high, elem): low = the one before
GListInsertAfter(s, i, elem) ==          \* i = 1-based index of the reference element, 0 = None
  LET lo == IF i >= 1 THEN s[i] ELSE <<>>
      hi == IF i >= 1 /\ i + 1 <= Len(s) THEN s[i + 1] ELSE <<>>
  IN [id |-> GBetween(lo, hi, elem)]
GListInsertBefore(s, i, elem) ==         \* i = 1-based index of the reference element, 0 = None
  LET hi == IF i >= 1 THEN s[i] ELSE <<>>
      lo == IF i >= 2 THEN s[i - 1] ELSE <<>>
  IN [id |-> GBetween(lo, hi, elem)]
\* insert(idx, elem) (glist.rs:73-80): after the element at idx-1 if there is one, else before the element at idx
GListInsert(s, idx, elem) ==
  IF idx >= 1 THEN GListInsertAfter(s, idx, elem) ELSE GListInsertBefore(s, IF Len(s) >= 1 THEN 1 ELSE 0, elem)
GListRead(s) == [i \in 1..Len(s) |-> s[i][Len(s[i])][2]]                     \* id.value()
=============================================================================
