\* GList: 2 replicas, 4 inserts, any delivery order, merges
CONSTANTS
  Kind = "glist"
  NReps = 2
  MaxOps = 4
  Regime = "any"
  UseMerge = TRUE
  UseSnap = FALSE
  UseDup = FALSE
  DupElems = FALSE
  BeyondLen = 0
  ScriptName = "none"
  Reps <- MCReps
  Actors <- MCActors
  ActorOf <- MCActorOf
INIT Init
NEXT Next
VIEW View
ACTION_CONSTRAINT Edge
INVARIANTS TypeOK UniqueIds RefinesA EachOnce Converge ClockOK DupNoop ValidateOpOK MergeLaws Hybrid
PROPERTY IndexSemantics
CHECK_DEADLOCK FALSE
