------------------------------- MODULE Merkle -------------------------------
(***************************************************************************)
(* Layer B for `src/merkle_reg.rs`.  A node is [v |-> value, ch |-> set of *)
(* nodes]; content addressing is structural identity (two nodes with the   *)
(* same value and children are the same node, as their SHA3 hashes are).   *)
(* State: [roots, dag, orphans] as sets of nodes.                          *)
(***************************************************************************)
EXTENDS Naturals, FiniteSets, Sequences

MkDefault == [roots |-> {}, dag |-> {}, orphans |-> {}]

AllSeen(s, node) == node.ch \subseteq s.dag                         \* all_hashes_seen

\* CmRDT::apply (merkle_reg.rs:209-254), including the re-examination of the
\* orphans after an insertion (the recursion of `self.apply(node)` on them)
RECURSIVE MkApply(_, _), MkApplyAll(_, _)
MkApply(s, node) ==
  IF node \in s.dag \/ node \in s.orphans THEN s
  ELSE IF AllSeen(s, node) THEN
     LET s1 == [roots |-> (s.roots \ node.ch) \cup {node}, dag |-> s.dag \cup {node}, orphans |-> s.orphans]
         ready == {o \in s1.orphans : AllSeen(s1, o)}
     IN MkApplyAll([s1 EXCEPT !.orphans = @ \ ready], ready)
  ELSE [s EXCEPT !.orphans = @ \cup {node}]
MkApplyAll(s, nodes) ==
  IF nodes = {} THEN s
  ELSE LET n == CHOOSE n \in nodes : TRUE IN MkApplyAll(MkApply(s, n), nodes \ {n})

\* CvRDT::merge (merkle_reg.rs:264-272): re-apply the other side's dag, then its orphans
MkMerge(s, o) == MkApplyAll(MkApplyAll(s, o.dag), o.orphans)

\* validate_op: every child must be in the dag
MkValidateOp(s, node) == IF node.ch \subseteq s.dag THEN "Ok" ELSE "MissingChild"

\* reads
MkRead(s) == s.roots \cap s.dag
MkChildren(s, n) == IF n \in s.dag THEN n.ch \cap s.dag ELSE {}
MkParents(s, n) == {p \in s.dag : n \in p.ch}
MkWrite(v, children) == [v |-> v, ch |-> children]
=============================================================================
