\* scenario List: identifiers of depth 3 (a || b, s || t between them, y between s and t; 3 actors, 5 inserts), then one more op (e.g. a delete) and causal deliveries
CONSTANTS
  Kind = "list"
  NReps = 3
  MaxOps = 6
  Regime = "causal"
  UseMerge = FALSE
  UseSnap = FALSE
  UseDup = FALSE
  DupElems = FALSE
  BeyondLen = 0
  ScriptName = "deep_paths"
  Reps <- MCReps
  Actors <- MCActors
  ActorOf <- MCActorOf
INIT ScriptInit
NEXT Next
VIEW View
ACTION_CONSTRAINT Edge
INVARIANTS TypeOK UniqueIds RefinesA EachOnce Converge ClockOK DupNoop ValidateOpOK MergeLaws Hybrid
PROPERTY IndexSemantics
CHECK_DEADLOCK FALSE
