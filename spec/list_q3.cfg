\* List: 3 replicas, 3 ops, causal delivery (three-way concurrent inserts at the same position)
CONSTANTS
  Kind = "list"
  NReps = 3
  MaxOps = 3
  Regime = "causal"
  UseMerge = FALSE
  UseSnap = FALSE
  UseDup = FALSE
  DupElems = FALSE
  BeyondLen = 0
  ScriptName = "none"
  Reps <- MCReps
  Actors <- MCActors
  ActorOf <- MCActorOf
INIT Init
NEXT Next
VIEW View
ACTION_CONSTRAINT Edge
INVARIANTS TypeOK UniqueIds RefinesA EachOnce Converge ClockOK DupNoop ValidateOpOK MergeLaws Hybrid
PROPERTY IndexSemantics
CHECK_DEADLOCK FALSE
