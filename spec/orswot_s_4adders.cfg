\* scenario: four replicas add the same member concurrently; then deliveries and merges among 4 replicas
\* (entry clocks with four actors: merge, intersection, common-dot computation)
CONSTANTS
  NReps = 4
  NMembers = 1
  MaxOps = 4
  Regime = "fifo"
  UseMerge = TRUE
  UseSnap = FALSE
  UseDup = FALSE
  DumpReset = FALSE
  CmdSet = {"rm"}
  ScriptName = "four_adders"
  Reps <- MCReps
  Actors <- MCActors
  Members <- MCMembers
  ActorOf <- MCActorOf
INIT ScriptInit
NEXT Next
VIEW View
ACTION_CONSTRAINT Edge
INVARIANTS TypeOK RefinesA Converge MergeLaws Hybrid DupNoop StaleNoop ValidateOpOK ValidateMergeSym ValidateMergeOKorKF CtxOK FreshDot
CHECK_DEADLOCK FALSE
