\* Map<K,MVReg> qc: 2 replicas, 2 keys, 4 API ops, causal delivery, no merges
CONSTANTS
  DescName = "mv"
  NReps = 2
  NKeys = 2
  NMembers = 1
  NVals = 1
  MaxOps = 4
  Regime = "causal"
  UseMerge = FALSE
  UseSnap = FALSE
  UseDup = FALSE
  RmVia = FALSE
  DumpReset = FALSE
  ScriptName = "none"
  Reps <- MCReps
  Actors <- MCActors
  Keys <- MCKeys
  Members <- MCMembers
  MvVals <- MCVals
  ActorOf <- MCActorOf
  ValDesc <- MCDesc
INIT Init
NEXT Next
VIEW View
ACTION_CONSTRAINT Edge
INVARIANTS TypeOK KeysOK TopCtxOK MergeComm ValidateOpOK ValidateMergeOK FreshDot
CHECK_DEADLOCK FALSE
