------------------------------ MODULE SysMVReg ------------------------------
(***************************************************************************)
(* Replicated standalone MVReg: layer B in the environment of ReplCore     *)
(* (no delivery-order assumption at all: regime "any"), layer A, and the   *)
(* properties relating them.                                               *)
(***************************************************************************)
EXTENDS MVReg

CONSTANTS Reps, ActorOf, MaxOps, Regime, UseMerge, UseSnap, UseDup,
          Vals          \* values written (deliberately few, so that equal values of concurrent writes occur)

VARIABLES st, know, ops, snap, hist

InitSt == MvDefault
Apply(s, op) == MvApply(s, op)
Merge(a, b) == MvMerge(a, b)
Cmds(s, r) == {[c |-> "write", v |-> v] : v \in Vals}
MkOp(s, r, cmd) == MvWrite(s, ActorOf[r], cmd.v)

INSTANCE ReplCore

(***************************************************************************)
(* Layer A: reading returns one value for every known write that no other  *)
(* known write had observed (transitively).                                *)
(***************************************************************************)
RECURSIVE Past(_, _)
Past(L, i) == L[i].deps \cup UNION {Past(L, j) : j \in L[i].deps}
Maximal(L, K) == {i \in K : ~\E j \in K : i \in Past(L, j)}
\* bag of values as a function value -> multiplicity (only values that occur)
ExpValBag(L, K) ==
  LET M == Maximal(L, K) IN
  [v \in {L[i].op.val : i \in M} |-> Cardinality({i \in M : L[i].op.val = v})]
\* the read context covers exactly the surviving writes' contexts
ExpClock(L, K) == [a \in Actors |-> SetMax({L[i].op.clock[a] : i \in Maximal(L, K)})]
\* canonical content: the surviving writes with their contexts, as a bag
ExpPairBag(L, K) ==
  LET M == Maximal(L, K)
      P == {[c |-> L[i].op.clock, v |-> L[i].op.val] : i \in M} IN
  [p \in P |-> Cardinality({i \in M : [c |-> L[i].op.clock, v |-> L[i].op.val] = p})]

ValBag(s) == [v \in {s.vals[i].v : i \in 1..Len(s.vals)} |-> Cardinality({i \in 1..Len(s.vals) : s.vals[i].v = v})]

\* ---- properties ----------------------------------------------------------
\* C06 / C07 / C20
RefinesA ==
  \A r \in Reps :
     /\ MvBag(st[r]) = ExpPairBag(ops, know[r])
     /\ ValBag(st[r]) = ExpValBag(ops, know[r])
     /\ MvRead(st[r]).add = ExpClock(ops, know[r])
\* the == of the type never hits its sanity assert on reachable states
NoDuplicatePair == \A r \in Reps : ~MvHasDuplicatePair(st[r])
\* C01 (bag equality is the type's ==)
Converge == \A r, q \in Reps : know[r] = know[q] => MvBag(st[r]) = MvBag(st[q])
States == {st[r] : r \in Reps} \cup (IF snap = <<>> THEN {} ELSE {snap[1]})
\* C02
MergeLaws ==
  \A a, b \in States :
     /\ MvBag(Merge(a, b)) = MvBag(Merge(b, a))
     /\ MvBag(Merge(a, a)) = MvBag(a)
     /\ \A c \in States : MvBag(Merge(Merge(a, b), c)) = MvBag(Merge(a, Merge(b, c)))
\* C03
Hybrid == \A a, b \in Reps : MvBag(Merge(st[a], st[b])) = ExpPairBag(ops, know[a] \cup know[b])
\* C09
DupNoop == \A r \in Reps : \A i \in know[r] : MvBag(Apply(st[r], ops[i].op)) = MvBag(st[r])
StaleNoop ==
  /\ \A r, q \in Reps : know[q] \subseteq know[r] => MvBag(Merge(st[r], st[q])) = MvBag(st[r])
  /\ snap # <<>> => \A r \in Reps : snap[2] \subseteq know[r] => MvBag(Merge(st[r], snap[1])) = MvBag(st[r])
\* C07: the derived dot was never used before by this actor
FreshDot ==
  \A r \in Reps : \A i \in 1..Len(ops) :
     (ops[i].author = r) => ops[i].op.clock[ActorOf[r]] < IncCounter(MvReadCtx(st[r]).add, ActorOf[r])
\* C18
ClockU == [Actors -> 0..2]
ResetLaws ==
  \A r \in Reps :
     /\ MvReset(st[r], Zero) = st[r]
     /\ MvReset(st[r], MvClock(st[r])).vals = <<>>
     /\ \A c \in ClockU :
          /\ MvReset(MvReset(st[r], c), c) = MvReset(st[r], c)
          /\ \A d \in ClockU : MvReset(MvReset(st[r], c), d) = MvReset(st[r], Join(c, d))
=============================================================================
