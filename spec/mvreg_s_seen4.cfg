\* scenario: a first write seen by all four replicas, then three more writes under causal delivery, no merges
\* (value clocks over up to four actors that agree at both ends and differ in the middle)
CONSTANTS
  NReps = 4
  NVals = 1
  MaxOps = 4
  Regime = "causal"
  UseMerge = FALSE
  UseSnap = FALSE
  UseDup = FALSE
  DumpReset = FALSE
  ScriptName = "seen_by_all"
  Reps <- MCReps
  Actors <- MCActors
  Vals <- MCVals
  ActorOf <- MCActorOf
INIT ScriptInit
NEXT Next
VIEW View
ACTION_CONSTRAINT Edge
INVARIANTS TypeOK RefinesA NoDuplicatePair Converge DupNoop StaleNoop FreshDot
CHECK_DEADLOCK FALSE
