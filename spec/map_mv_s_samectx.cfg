\* scenario Map<K,MVReg>: same-context key removes (see map_or_s_samectx)
CONSTANTS
  DescName = "mv"
  NReps = 3
  NKeys = 2
  NMembers = 1
  NVals = 1
  MaxOps = 4
  Regime = "fifo"
  UseMerge = TRUE
  UseSnap = FALSE
  UseDup = FALSE
  RmVia = TRUE
  DumpReset = FALSE
  ScriptName = "same_ctx_key_removes"
  Reps <- MCReps
  Actors <- MCActors
  Keys <- MCKeys
  Members <- MCMembers
  MvVals <- MCVals
  ActorOf <- MCActorOf
  ValDesc <- MCDesc
INIT ScriptInit
NEXT Next
VIEW noopView
CONSTRAINT NoopBound1
ACTION_CONSTRAINT Edge
INVARIANTS TypeOK KeysOK TopCtxOK FreshDot
CHECK_DEADLOCK FALSE
