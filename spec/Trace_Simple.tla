----------------------------- MODULE Trace_Simple -----------------------------
(* impl -> spec for GCounter, PNCounter, LWWReg, MaxReg, MinReg, GSet (Kind); see TraceCore.tla *)
EXTENDS SysSimple, TLC, Json, IOUtils, SequencesExt

CONSTANTS NReps
MCReps == 1..NReps
MCActors == 1..NReps
MCActorOf == [r \in MCReps |-> r]
MCNoVals == {}

Rec == ndJsonDeserialize(IOEnv.TRACE)
VARIABLES l, bad
tvars == <<st, know, ops, snap, hist, l, bad>>

CmdOf(x) == x
TC == INSTANCE TraceCore
TInit == TC!TraceInit /\ bad = <<>>

PostOf(p) ==
  CASE Kind = "gcounter"  -> p.clock
    [] Kind = "pncounter" -> [p |-> p.p, n |-> p.n]
    [] Kind = "lww"       -> [val |-> p.val, marker |-> p.marker]
    [] Kind \in {"max", "min"} -> [val |-> p.val]
    [] Kind = "gset"      -> ToSet(p.set)
ReadOfJson(x) == IF Kind = "gset" THEN ToSet(x) ELSE x

Verdicts(e, r) ==
  LET post == PostOf(e.post)
      K == know'[r]
      amb == AmbiguousL(ops', K)
      b1 == IF post # st'[r] THEN <<[l |-> l, kind |-> "drift"]>> ELSE <<>>
      b2 == IF ~amb /\ ReadOfJson(e.reads.read) # ExpRead(ops', K) THEN <<[l |-> l, kind |-> "read"]>> ELSE <<>>
      b3 == IF ~amb /\ post # Canon(ops', K) THEN <<[l |-> l, kind |-> "canon"]>> ELSE <<>>
  IN b1 \o b2 \o b3

TStep == TC!TraceStep /\ bad' = bad \o (IF Rec[l].a = "panic" THEN <<[l |-> l, kind |-> "panic"]>> ELSE Verdicts(Rec[l], Rec[l].r))
Report == TC!TraceDone => PrintT(<<"VERDICT", ToJson([events |-> Len(Rec), bad |-> bad])>>)
Accepted == (TLCGet("stats").diameter - 1 = Len(Rec)) \/ PrintT(<<"TRACE-NOT-CONSUMED", TLCGet("stats").diameter - 1, Len(Rec)>>)
=============================================================================
