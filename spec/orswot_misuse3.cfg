\* MISUSE (3 replicas, no merges): replicas 1 and 2 both edit through actor 1, replica 3 is correct.
\* Layer A has no meaning for the contents here; only validate_merge is judged: it must flag (both directions) exactly the
\* pairs of states in which one dot is the current witness of different members (ExpVM).
CONSTANTS
  NReps = 3
  NMembers = 2
  MaxOps = 3
  Regime = "fifo"
  UseMerge = FALSE
  UseSnap = FALSE
  UseDup = FALSE
  DumpReset = FALSE
  CmdSet = {"add", "rm"}
  ScriptName = "none"
  Reps <- MCReps
  Actors <- MCActors
  Members <- MCMembers
  ActorOf <- MCActorOfShared
INIT Init
NEXT Next
VIEW View
ACTION_CONSTRAINT Edge
INVARIANTS TypeOK ValidateMergeFlags ValidateMergeSym
CHECK_DEADLOCK FALSE
