\* GCounter (thorough): 2 replicas, 4 ops (inc, inc_many 0/2), any delivery order, merges; reset_remove with 9 clocks
CONSTANTS
  Kind = "gcounter"
  NReps = 2
  MaxOps = 4
  Regime = "any"
  UseMerge = TRUE
  UseSnap = FALSE
  UseDup = FALSE
  UniqueMarkers = TRUE
  DumpReset = TRUE
  Reps <- MCReps
  Actors <- MCActors
  ActorOf <- MCActorOf
  Vals <- MCValsPos
  Steps <- MCSteps
  Markers <- MCMarkers
INIT Init
NEXT Next
VIEW View
ACTION_CONSTRAINT Edge
INVARIANTS TypeOK RefinesA ReadsOK MergeLaws DupNoop StaleNoop ValidateOpOK ValidateMergeOK ValidateMergeSym ResetLaws
PROPERTY Monotone
CHECK_DEADLOCK FALSE
