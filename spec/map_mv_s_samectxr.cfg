\* scenario Map<K,MVReg>: same-context key removes issued in the opposite order (absent key first), one more edit, 3 replicas, merges
CONSTANTS
  DescName = "mv"
  NReps = 3
  NKeys = 2
  NMembers = 1
  NVals = 1
  MaxOps = 5
  Regime = "fifo"
  UseMerge = TRUE
  UseSnap = FALSE
  UseDup = FALSE
  RmVia = TRUE
  DumpReset = FALSE
  ScriptName = "same_ctx_key_removes_rev"
  Reps <- MCReps
  Actors <- MCActors
  Keys <- MCKeys
  Members <- MCMembers
  MvVals <- MCVals
  ActorOf <- MCActorOf
  ValDesc <- MCDesc
INIT ScriptInit
NEXT Next
VIEW View
ACTION_CONSTRAINT Edge
INVARIANTS TypeOK KeysOK TopCtxOK FreshDot
CHECK_DEADLOCK FALSE
