\* t2: 2 replicas, 2 members, 5 API ops (add, rm), FIFO, merges
CONSTANTS
  NReps = 2
  NMembers = 2
  MaxOps = 5
  Regime = "fifo"
  UseMerge = TRUE
  UseSnap = FALSE
  UseDup = FALSE
  DumpReset = FALSE
  CmdSet = {"add", "rm"}
  ScriptName = "none"
  Reps <- MCReps
  Actors <- MCActors
  Members <- MCMembers
  ActorOf <- MCActorOf
INIT Init
NEXT Next
VIEW View
ACTION_CONSTRAINT Edge
INVARIANTS TypeOK RefinesA Converge MergeLaws Hybrid DupNoop StaleNoop ValidateOpOK ValidateMergeSym ValidateMergeOKorKF CtxOK FreshDot
CHECK_DEADLOCK FALSE
