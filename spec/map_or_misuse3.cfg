\* MISUSE Map<K,Orswot>, nested half: replicas 1 and 2 both edit through actor 1, replica 3 through actor 3, two keys; after the script one more edit;
\* only validate_merge is judged (the nested Orswot::validate_merge is consulted only for a key whose entry clocks are concurrent)
CONSTANTS
  DescName = "or"
  NReps = 3
  NKeys = 2
  NMembers = 2
  NVals = 1
  MaxOps = 4
  Regime = "fifo"
  UseMerge = FALSE
  UseSnap = FALSE
  UseDup = FALSE
  RmVia = FALSE
  DumpReset = FALSE
  ScriptName = "nested_reused_dot"
  Reps <- MCReps
  Actors <- MCActors
  Keys <- MCKeys
  Members <- MCMembers
  MvVals <- MCVals
  ActorOf <- MCActorOfShared
  ValDesc <- MCDesc
INIT ScriptInit
NEXT Next
VIEW View
ACTION_CONSTRAINT Edge
INVARIANTS TypeOK
CHECK_DEADLOCK FALSE
