\* all ordered pairs of clocks over 5 actors x counters 0..2 (243 clocks, 59049 pairs)
CONSTANTS
  NActors = 5
  MaxCounter = 2
  Actors <- MCActors
INIT Init
NEXT Next
INVARIANTS OrderOK LatticeOK ForgetOK DotOK Dump
CHECK_DEADLOCK FALSE
