\* qsnap: 2 replicas, 1 member, 3 API ops, merges and one saved (stale) snapshot that anybody may merge later
CONSTANTS
  NReps = 2
  NMembers = 1
  MaxOps = 3
  Regime = "fifo"
  UseMerge = TRUE
  UseSnap = TRUE
  UseDup = FALSE
  DumpReset = FALSE
  CmdSet = {"add", "rm"}
  ScriptName = "none"
  Reps <- MCReps
  Actors <- MCActors
  Members <- MCMembers
  ActorOf <- MCActorOf
INIT Init
NEXT Next
VIEW View
ACTION_CONSTRAINT Edge
INVARIANTS TypeOK RefinesA Converge MergeLaws Hybrid DupNoop StaleNoop ValidateOpOK ValidateMergeSym ValidateMergeOKorKF CtxOK FreshDot
CHECK_DEADLOCK FALSE
