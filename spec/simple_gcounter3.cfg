\* GCounter: 3 replicas, 2 ops (inc, inc_many 0/2), any delivery order, merges
CONSTANTS
  Kind = "gcounter"
  NReps = 3
  MaxOps = 2
  Regime = "any"
  UseMerge = TRUE
  UseSnap = FALSE
  UseDup = FALSE
  UniqueMarkers = TRUE
  DumpReset = FALSE
  Reps <- MCReps
  Actors <- MCActors
  ActorOf <- MCActorOf
  Vals <- MCValsPos
  Steps <- MCSteps
  Markers <- MCMarkers
INIT Init
NEXT Next
VIEW View
ACTION_CONSTRAINT Edge
INVARIANTS TypeOK RefinesA ReadsOK MergeLaws DupNoop StaleNoop ValidateOpOK ValidateMergeOK ValidateMergeSym ResetLaws
PROPERTY Monotone
CHECK_DEADLOCK FALSE
