------------------------------ MODULE MC_Ident ------------------------------
(***************************************************************************)
(* Property C14 on the specification: over the universe of all identifiers *)
(* of depth <= Depth built from a few rationals and markers (which         *)
(* contains the decisive shapes: equal rationals with different markers,   *)
(* one path a prefix of the other, a marker that fits between sibling      *)
(* markers), the order is total / antisymmetric / transitive and between() *)
(* lands strictly inside.  One TLC state = <<lo, hi, marker>>; every state *)
(* is printed as a test vector for Identifier::cmp / eq / between.         *)
(***************************************************************************)
EXTENDS Ident, TLC, Json, FiniteSets

CONSTANTS Depth, Rats, Marks

MCRats == {<<-1, 1>>, <<0, 1>>, <<1, 2>>, <<1, 1>>}
MCRats3 == {<<0, 1>>, <<1, 2>>, <<1, 1>>}
MCRats2 == {<<0, 1>>, <<1, 2>>}

Nodes == {<<r, m>> : r \in Rats, m \in Marks}
RECURSIVE IdsOfLen(_)
IdsOfLen(n) == IF n = 0 THEN {<<>>} ELSE {<<x>> \o t : x \in Nodes, t \in IdsOfLen(n - 1)}
IdU == UNION {IdsOfLen(n) : n \in 1..Depth}          \* non-empty identifiers

VARIABLES lo, hi, mk
vars == <<lo, hi, mk>>
Init == lo \in IdU /\ hi \in IdU /\ mk \in Marks
Next == UNCHANGED vars

Sgn(x) == IF x < 0 THEN -1 ELSE IF x > 0 THEN 1 ELSE 0
OrderOK ==
  /\ IdCmp(lo, hi) = -IdCmp(hi, lo)                                      \* total, antisymmetric
  /\ (IdCmp(lo, hi) = 0) <=> (lo = hi)                                   \* consistent with equality
  /\ \A z \in IdU : (IdCmp(lo, hi) <= 0 /\ IdCmp(hi, z) <= 0) => IdCmp(lo, z) <= 0   \* transitive
DenseOK ==
  /\ IdCmp(lo, hi) < 0 =>
       LET b == Between(lo, hi, mk) IN IdCmp(lo, b) < 0 /\ IdCmp(b, hi) < 0
  /\ IdCmp(lo, hi) > 0 =>
       LET b == Between(lo, hi, mk) IN IdCmp(hi, b) < 0 /\ IdCmp(b, lo) < 0      \* arguments given in the wrong order are swapped
  /\ LET a == BetweenOpt(IntLt, lo, <<>>, mk) IN IdCmp(lo, a) < 0        \* only a lower bound: strictly beyond it
  /\ LET a == BetweenOpt(IntLt, <<>>, hi, mk) IN IdCmp(a, hi) < 0        \* only an upper bound
  /\ Between(lo, hi, mk)[Len(Between(lo, hi, mk))][2] = mk \/ lo = hi    \* the new identifier is tagged with the marker

Vector ==
  [lo |-> lo, hi |-> hi, m |-> mk,
   cmp |-> IdCmp(lo, hi),
   btw |-> Between(lo, hi, mk),
   after |-> BetweenOpt(IntLt, lo, <<>>, mk),
   before |-> BetweenOpt(IntLt, <<>>, hi, mk),
   none |-> BetweenOpt(IntLt, <<>>, <<>>, mk)]
Dump == PrintT(<<"E", ToJson(Vector)>>)
=============================================================================
