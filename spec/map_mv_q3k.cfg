\* Map<K,MVReg> q3k: 2 replicas, 3 keys, 4 API ops, FIFO delivery, merges (merge passes that walk both key sets in order: two unknown keys before a shared one)
CONSTANTS
  DescName = "mv"
  NReps = 2
  NKeys = 3
  NMembers = 1
  NVals = 1
  MaxOps = 4
  Regime = "fifo"
  UseMerge = TRUE
  UseSnap = FALSE
  UseDup = FALSE
  RmVia = FALSE
  DumpReset = FALSE
  ScriptName = "none"
  Reps <- MCReps
  Actors <- MCActors
  Keys <- MCKeys
  Members <- MCMembers
  MvVals <- MCVals
  ActorOf <- MCActorOf
  ValDesc <- MCDesc
INIT Init
NEXT Next
VIEW View
ACTION_CONSTRAINT Edge
INVARIANTS TypeOK KeysOK TopCtxOK FreshDot
CHECK_DEADLOCK FALSE
