---------------------------- MODULE Trace_Orswot ----------------------------
(***************************************************************************)
(* impl -> spec.  Reads a trace recorded from the REAL Orswot by the random *)
(* driver (one JSON line per API call: action, arguments, the op the API    *)
(* built, post-state projection, reads) and replays it with the spec's own  *)
(* actions: the op of a "gen" event is rebuilt by the spec (MkOp), never    *)
(* trusted from the log.  It never blocks: every disagreement is appended   *)
(* to `bad` (drift = the recorded internal state is not layer B's; the      *)
(* other kinds = a recorded observable contradicts layer A) and the rest of *)
(* the trace is still examined.                                             *)
(***************************************************************************)
EXTENDS SysOrswot, TLC, Json, IOUtils, SequencesExt

CONSTANTS NReps, NMembers
MCReps == 1..NReps
MCActors == 1..NReps
MCMembers == 1..NMembers
MCActorOf == [r \in MCReps |-> r]

Rec == ndJsonDeserialize(IOEnv.TRACE)

VARIABLES l, bad
tvars == <<st, know, ops, snap, hist, l, bad>>

CmdOf(x) == [c |-> x.c, m |-> x.m, ms |-> ToSet(x.ms)]
TC == INSTANCE TraceCore
TInit == TC!TraceInit /\ bad = <<>>

PostOf(p) == [clock |-> p.clock, entries |-> p.entries,
              deferred |-> {<<q[1], ToSet(q[2])>> : q \in ToSet(p.deferred)}]
OpOf(o) == IF o.kind = "add" THEN [kind |-> "add", actor |-> o.actor, counter |-> o.counter, members |-> ToSet(o.members)]
           ELSE [kind |-> "rm", clock |-> o.clock, members |-> ToSet(o.members)]

\* what the recorded event disagrees with, after the spec has taken the same step
Verdicts(e, r) ==
  LET post == PostOf(e.post)
      K == know'[r]
      b1 == IF post # st'[r] THEN <<[l |-> l, kind |-> "drift"]>> ELSE <<>>
      b2 == IF ToSet(e.reads.read.val) # ExpSet(ops', K) THEN <<[l |-> l, kind |-> "members"]>> ELSE <<>>
      b3 == IF e.reads.read.add # ExpClock(ops', K)
               \/ \E m \in Members : e.reads.contains[m].rm # ExpWit(ops', K, m)
            THEN <<[l |-> l, kind |-> "ctx"]>> ELSE <<>>
      b4 == IF post # Canon(ops', K) THEN <<[l |-> l, kind |-> "canon"]>> ELSE <<>>
      b5 == IF e.a = "gen" /\ OpOf(e.op[1]) # ops'[Len(ops')].op THEN <<[l |-> l, kind |-> "op"]>> ELSE <<>>
  IN b1 \o b2 \o b3 \o b4 \o b5

TStep == TC!TraceStep /\ bad' = bad \o (IF Rec[l].a = "panic" THEN <<[l |-> l, kind |-> "panic"]>> ELSE Verdicts(Rec[l], Rec[l].r))

TSpec == TInit /\ [][TStep]_tvars

\* the whole trace was consumed; print the verdict once, at the end
Done == l = Len(Rec) + 1
Report == Done => PrintT(<<"VERDICT", ToJson([events |-> Len(Rec), bad |-> bad])>>)
Accepted == (TLCGet("stats").diameter - 1 = Len(Rec)) \/ PrintT(<<"TRACE-NOT-CONSUMED", TLCGet("stats").diameter - 1, Len(Rec)>>)
=============================================================================
