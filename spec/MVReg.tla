------------------------------- MODULE MVReg -------------------------------
(***************************************************************************)
(* Layer B for `src/mvreg.rs`.                                             *)
(* State: [vals |-> sequence of [c |-> clock, v |-> value]] in the Vec's   *)
(* arrival order (the type's == is order blind; comparisons with the real  *)
(* code are on the bag).  Op: [clock, val] (Op::Put).                      *)
(***************************************************************************)
EXTENDS Clocks

MvDefault == [vals |-> <<>>]

\* CmRDT::apply (mvreg.rs:143-176)
MvApply(s, op) ==
  IF IsZero(op.clock) THEN s
  ELSE LET kept == SelectSeq(s.vals, LAMBDA p : Cmp(p.c, op.clock) \in {"NONE", "GT"})
       IN IF \E p \in SeqRange(kept) : Cmp(p.c, op.clock) = "GT"
          THEN [s EXCEPT !.vals = kept]                                   \* dominated put: ignored
          ELSE [s EXCEPT !.vals = Append(kept, [c |-> op.clock, v |-> op.val])]

\* CvRDT::merge (mvreg.rs:118-132)
MvMerge(a, b) ==
  LET keepA == SelectSeq(a.vals, LAMBDA p : ~\E q \in SeqRange(b.vals) : Cmp(p.c, q.c) = "LT")
      fromB == SelectSeq(b.vals, LAMBDA q : (~\E p \in SeqRange(keepA) : Cmp(q.c, p.c) = "LT")
                                            /\ (\A p \in SeqRange(keepA) : q.c # p.c))
  IN [a EXCEPT !.vals = keepA \o fromB]

\* ResetRemove::reset_remove (mvreg.rs:89-103)
RECURSIVE MvResetSeq(_, _)
MvResetSeq(s, c) ==
  IF s = <<>> THEN <<>>
  ELSE LET h == Head(s)  f == Forget(h.c, c) IN
       IF IsZero(f) THEN MvResetSeq(Tail(s), c)
       ELSE <<[c |-> f, v |-> h.v]>> \o MvResetSeq(Tail(s), c)
MvReset(s, c) == [s EXCEPT !.vals = MvResetSeq(s.vals, c)]

\* MVReg::clock (private): join of all value clocks
RECURSIVE JoinAll(_)
JoinAll(s) == IF s = <<>> THEN Zero ELSE Join(Head(s).c, JoinAll(Tail(s)))
MvClock(s) == JoinAll(s.vals)

\* reads (mvreg.rs:194-216)
MvRead(s) == [add |-> MvClock(s), rm |-> MvClock(s), val |-> [i \in 1..Len(s.vals) |-> s.vals[i].v]]
MvReadCtx(s) == [add |-> MvClock(s), rm |-> MvClock(s)]

\* write(val, read().derive_add_ctx(actor)): Put{clock: ctx.clock, val}
\* derive_add_ctx: clock' = add_clock with the actor's entry incremented
MvWrite(s, a, v) ==
  LET rc == MvReadCtx(s).add IN [clock |-> Bump(rc, a, IncCounter(rc, a)), val |-> v, actor |-> a]

\* the content of the register as a bag: pair -> multiplicity (PartialEq is bag equality,
\* with a sanity assert that panics when a pair occurs twice)
MvBag(s) == [p \in SeqRange(s.vals) |-> Cardinality({i \in 1..Len(s.vals) : s.vals[i] = p})]
MvHasDuplicatePair(s) == \E i, j \in 1..Len(s.vals) : i # j /\ s.vals[i] = s.vals[j]
=============================================================================
