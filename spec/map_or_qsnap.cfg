\* Map<K,Orswot> qsnap: 2 replicas, 1 key, 2 members, 3 API ops, causal delivery, merges and one saved (stale) snapshot merged later
CONSTANTS
  DescName = "or"
  NReps = 2
  NKeys = 1
  NMembers = 2
  NVals = 1
  MaxOps = 3
  Regime = "causal"
  UseMerge = TRUE
  UseSnap = TRUE
  UseDup = FALSE
  RmVia = FALSE
  DumpReset = FALSE
  ScriptName = "none"
  Reps <- MCReps
  Actors <- MCActors
  Keys <- MCKeys
  Members <- MCMembers
  MvVals <- MCVals
  ActorOf <- MCActorOf
  ValDesc <- MCDesc
INIT Init
NEXT Next
VIEW View
ACTION_CONSTRAINT Edge
INVARIANTS TypeOK KeysOK TopCtxOK FreshDot
CHECK_DEADLOCK FALSE
