------------------------------ MODULE SysMerkle ------------------------------
(***************************************************************************)
(* Replicated MerkleReg: any arrival order, duplicates, merges.            *)
(* Layer A: the content is a function of the SET of nodes received.        *)
(***************************************************************************)
EXTENDS Merkle

CONSTANTS Reps, ActorOf, MaxOps, Regime, UseMerge, UseSnap, UseDup,
          Vals,          \* values written
          ChildMode      \* "heads": write on top of the heads read; "any": on any subset of the visible nodes

VARIABLES st, know, ops, snap, hist

InitSt == MkDefault
Apply(s, op) == MkApply(s, op)
Merge(a, b) == MkMerge(a, b)
Cmds(s, r) ==
  {[c |-> "write", v |-> v, on |-> ch] : v \in Vals,
     ch \in IF ChildMode = "heads" THEN {MkRead(s)} ELSE SUBSET s.dag}
MkOp(s, r, cmd) == MkWrite(cmd.v, cmd.on)

INSTANCE ReplCore

\* ---- layer A ---------------------------------------------------------------
Nodes(L, K) == {L[i].op : i \in K}
\* the least set closed under "all children visible"
RECURSIVE Grow(_, _)
Grow(N, V) == LET more == {n \in N \ V : n.ch \subseteq V} IN IF more = {} THEN V ELSE Grow(N, V \cup more)
Visible(L, K) == Grow(Nodes(L, K), {})
Heads(L, K) == LET V == Visible(L, K) IN {n \in V : ~\E p \in V : n \in p.ch}
Orphans(L, K) == Nodes(L, K) \ Visible(L, K)
Canon(L, K) == [roots |-> Heads(L, K), dag |-> Visible(L, K), orphans |-> Orphans(L, K)]
ExpValidate(L, K, i) == IF L[i].op.ch \subseteq Visible(L, K) THEN "Ok" ELSE "MissingChild"

\* ---- properties ---------------------------------------------------------------
\* C15 (also C01, C03, C08, C20): the state is the canonical state of the node set
RefinesA == \A r \in Reps : st[r] = Canon(ops, know[r])
States == {st[r] : r \in Reps} \cup (IF snap = <<>> THEN {} ELSE {snap[1]})
MergeLaws ==
  \A a, b \in States : /\ Merge(a, b) = Merge(b, a) /\ Merge(a, a) = a
                       /\ \A c \in States : Merge(Merge(a, b), c) = Merge(a, Merge(b, c))
Hybrid == \A a, b \in Reps : Merge(st[a], st[b]) = Canon(ops, know[a] \cup know[b])
DupNoop == \A r \in Reps : \A i \in know[r] : Apply(st[r], ops[i].op) = st[r]
StaleNoop == \A r, q \in Reps : know[q] \subseteq know[r] => Merge(st[r], st[q]) = st[r]
ValidateOpOK == \A r \in Reps : \A i \in 1..Len(ops) : MkValidateOp(st[r], ops[i].op) = ExpValidate(ops, know[r], i)
\* writing on top of the heads read replaces them
WriteReplacesHeads ==
  [][\A r \in Reps : (IsGenBy(r) /\ NewOp.op.ch = MkRead(st[r])) =>
        /\ NewOp.op \in st'[r].dag                           \* the write is visible at once
        /\ MkRead(st[r]) \cap MkRead(st'[r]) = {}             \* none of the heads read is a head any more
        /\ st[r].orphans = {} => MkRead(st'[r]) = {NewOp.op}  \* and, unless it happened to fill a gap, it is THE head
     ]_vars
=============================================================================
