\* MISUSE Map<K,MVReg>: replicas 1 and 2 both edit through actor 1; only validate_merge is judged
CONSTANTS
  DescName = "mv"
  NReps = 2
  NKeys = 2
  NMembers = 1
  NVals = 1
  MaxOps = 3
  Regime = "fifo"
  UseMerge = TRUE
  UseSnap = FALSE
  UseDup = FALSE
  RmVia = FALSE
  DumpReset = FALSE
  ScriptName = "none"
  Reps <- MCReps
  Actors <- MCActors
  Keys <- MCKeys
  Members <- MCMembers
  MvVals <- MCVals
  ActorOf <- MCActorOfShared
  ValDesc <- MCDesc
INIT Init
NEXT Next
VIEW View
ACTION_CONSTRAINT Edge
INVARIANTS TypeOK
CHECK_DEADLOCK FALSE
