\* scenario: four replicas write concurrently; then every delivery order and every merge among the four replicas
\* (four sibling values, read context = join of four clocks, merges of four-actor clocks)
CONSTANTS
  NReps = 4
  NVals = 1
  MaxOps = 4
  Regime = "fifo"
  UseMerge = TRUE
  UseSnap = FALSE
  UseDup = FALSE
  DumpReset = FALSE
  ScriptName = "four_writers"
  Reps <- MCReps
  Actors <- MCActors
  Vals <- MCVals
  ActorOf <- MCActorOf
INIT ScriptInit
NEXT Next
VIEW View
ACTION_CONSTRAINT Edge
INVARIANTS TypeOK RefinesA NoDuplicatePair Converge MergeLaws Hybrid DupNoop StaleNoop FreshDot
CHECK_DEADLOCK FALSE
