\* scenario Map<K,MVReg>: a pending remove holding two keys under one clock, a strictly newer remove of one of them, and an update of the other key in between (7 ops); then FIFO deliveries to a third replica
CONSTANTS
  DescName = "mv"
  NReps = 3
  NKeys = 2
  NMembers = 1
  NVals = 1
  MaxOps = 7
  Regime = "fifo"
  UseMerge = FALSE
  UseSnap = FALSE
  UseDup = FALSE
  RmVia = TRUE
  DumpReset = FALSE
  ScriptName = "newer_remove_of_one_key"
  Reps <- MCReps
  Actors <- MCActors
  Keys <- MCKeys
  Members <- MCMembers
  MvVals <- MCVals
  ActorOf <- MCActorOf
  ValDesc <- MCDesc
INIT ScriptInit
NEXT Next
VIEW View
ACTION_CONSTRAINT Edge
INVARIANTS TypeOK KeysOK TopCtxOK FreshDot
CHECK_DEADLOCK FALSE
