------------------------------ MODULE MC_Merkle ------------------------------
EXTENDS SysMerkle, TLC, Json, SequencesExt

CONSTANTS NReps, NVals

MCReps == 1..NReps
MCVals == 1..NVals
MCActorOf == [r \in MCReps |-> r]

View == coreView
ProjB(s) == [roots |-> s.roots, dag |-> s.dag, orphans |-> s.orphans]
Who == LET a == Last(hist') IN IF a[1] = "save" THEN 0 ELSE a[2]

Line ==
  LET r == Who K == know'[r] act == Last(hist') IN
  [h   |-> hist',
   who |-> r,
   B   |-> ProjB(st'[r]),
   A   |-> [heads |-> Heads(ops', K), visible |-> Visible(ops', K), orphans |-> Orphans(ops', K)],
   op  |-> IF act[1] = "gen" THEN <<ops'[Len(ops')].op>> ELSE <<>>,
   vop |-> [q \in Reps |-> [i \in 1..Len(ops') |-> ExpValidate(ops', know'[q], i)]],
   vm  |-> [q \in Reps |-> "Ok"]]

Edge == Who = 0 \/ PrintT(<<"E", ToJson(Line)>>)
=============================================================================
