\* MaxReg: 2 replicas, 3 writes from {-1,0,1,2}, any order, merges
CONSTANTS
  Kind = "max"
  NReps = 2
  MaxOps = 3
  Regime = "any"
  UseMerge = TRUE
  UseSnap = FALSE
  UseDup = FALSE
  UniqueMarkers = TRUE
  DumpReset = FALSE
  Reps <- MCReps
  Actors <- MCActors
  ActorOf <- MCActorOf
  Vals <- MCValsInt
  Steps <- MCSteps
  Markers <- MCMarkers
INIT Init
NEXT Next
VIEW View
ACTION_CONSTRAINT Edge
INVARIANTS TypeOK RefinesA ReadsOK MergeLaws DupNoop StaleNoop ValidateOpOK ValidateMergeOK ValidateMergeSym ResetLaws
PROPERTY Monotone
CHECK_DEADLOCK FALSE
