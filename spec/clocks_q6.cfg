\* all ordered pairs of clocks over 6 actors x counters 0..1 (64 clocks, 4096 pairs): size-dependent paths (one clock much smaller than the other)
CONSTANTS
  NActors = 6
  MaxCounter = 1
  Actors <- MCActors
INIT Init
NEXT Next
INVARIANTS OrderOK LatticeOK ForgetOK DotOK Dump
CHECK_DEADLOCK FALSE
