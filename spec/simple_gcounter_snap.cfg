\* GCounter: 2 replicas, 3 ops, any delivery order, merges and one saved (stale) snapshot merged later
CONSTANTS
  Kind = "gcounter"
  NReps = 2
  MaxOps = 3
  Regime = "any"
  UseMerge = TRUE
  UseSnap = TRUE
  UseDup = FALSE
  UniqueMarkers = TRUE
  DumpReset = FALSE
  Reps <- MCReps
  Actors <- MCActors
  ActorOf <- MCActorOf
  Vals <- MCValsPos
  Steps <- MCSteps
  Markers <- MCMarkers
INIT Init
NEXT Next
VIEW View
ACTION_CONSTRAINT Edge
INVARIANTS TypeOK RefinesA ReadsOK MergeLaws DupNoop StaleNoop ValidateOpOK ValidateMergeOK ValidateMergeSym ResetLaws
PROPERTY Monotone
CHECK_DEADLOCK FALSE
