\* scenario Map<K,Map<K,MVReg>>, 4 replicas: an inner key-remove with a two-actor context is pending inside the nested map while the outer key is partially removed
CONSTANTS
  DescName = "map_mv"
  NReps = 4
  NKeys = 1
  NMembers = 1
  NVals = 1
  MaxOps = 4
  Regime = "fifo"
  UseMerge = FALSE
  UseSnap = FALSE
  UseDup = FALSE
  RmVia = FALSE
  DumpReset = FALSE
  ScriptName = "inner_pending_partial"
  Reps <- MCReps
  Actors <- MCActors
  Keys <- MCKeys
  Members <- MCMembers
  MvVals <- MCVals
  ActorOf <- MCActorOf
  ValDesc <- MCDesc
INIT ScriptInit
NEXT Next
VIEW View
ACTION_CONSTRAINT Edge
INVARIANTS TypeOK KeysOK TopCtxOK FreshDot
CHECK_DEADLOCK FALSE
