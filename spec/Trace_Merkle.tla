----------------------------- MODULE Trace_Merkle -----------------------------
(* impl -> spec for MerkleReg; see TraceCore.tla.  Nodes travel in the log in   *)
(* the spec's structural form {v, ch:[...]}.                                    *)
EXTENDS SysMerkle, TLC, Json, IOUtils, SequencesExt

CONSTANTS NReps, NVals
MCReps == 1..NReps
MCVals == 1..NVals
MCActorOf == [r \in MCReps |-> r]

Rec == ndJsonDeserialize(IOEnv.TRACE)
VARIABLES l, bad
tvars == <<st, know, ops, snap, hist, l, bad>>

RECURSIVE NodeOf(_)
NodeOf(j) == [v |-> j.v, ch |-> {NodeOf(c) : c \in ToSet(j.ch)}]
NodesOf(js) == {NodeOf(j) : j \in ToSet(js)}
CmdOf(x) == [c |-> "write", v |-> x.v, on |-> NodesOf(x.on)]
TC == INSTANCE TraceCore
TInit == TC!TraceInit /\ bad = <<>>

PostOf(p) == [roots |-> NodesOf(p.roots), dag |-> NodesOf(p.dag), orphans |-> NodesOf(p.orphans)]

Verdicts(e, r) ==
  LET post == PostOf(e.tpost)
      K == know'[r]
      b1 == IF post # st'[r] THEN <<[l |-> l, kind |-> "drift"]>> ELSE <<>>
      b2 == IF post.roots \cap post.dag # Heads(ops', K) THEN <<[l |-> l, kind |-> "heads"]>> ELSE <<>>
      b3 == IF post # Canon(ops', K) \/ e.reads.num_nodes # Cardinality(Visible(ops', K))
               \/ e.reads.num_orphans # Cardinality(Orphans(ops', K))
            THEN <<[l |-> l, kind |-> "nodeset"]>> ELSE <<>>
  IN b1 \o b2 \o b3

TStep == TC!TraceStep /\ bad' = bad \o (IF Rec[l].a = "panic" THEN <<[l |-> l, kind |-> "panic"]>> ELSE Verdicts(Rec[l], Rec[l].r))
Report == TC!TraceDone => PrintT(<<"VERDICT", ToJson([events |-> Len(Rec), bad |-> bad])>>)
Accepted == (TLCGet("stats").diameter - 1 = Len(Rec)) \/ PrintT(<<"TRACE-NOT-CONSUMED", TLCGet("stats").diameter - 1, Len(Rec)>>)
=============================================================================
