\* MerkleReg: 3 replicas, 4 writes on the heads read, any arrival order, merges
CONSTANTS
  NReps = 3
  NVals = 1
  MaxOps = 4
  Regime = "any"
  UseMerge = TRUE
  UseSnap = FALSE
  UseDup = FALSE
  ChildMode = "heads"
  Reps <- MCReps
  Vals <- MCVals
  ActorOf <- MCActorOf
INIT Init
NEXT Next
VIEW View
ACTION_CONSTRAINT Edge
INVARIANTS TypeOK RefinesA MergeLaws Hybrid DupNoop StaleNoop ValidateOpOK
PROPERTY WriteReplacesHeads
CHECK_DEADLOCK FALSE
