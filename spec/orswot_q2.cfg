\* q2: 2 replicas, 2 members, 4 API ops (add, rm), per-actor FIFO delivery (= causal with 2 replicas), merges
CONSTANTS
  NReps = 2
  NMembers = 2
  MaxOps = 4
  Regime = "fifo"
  UseMerge = TRUE
  UseSnap = FALSE
  UseDup = FALSE
  DumpReset = FALSE
  CmdSet = {"add", "rm"}
  ScriptName = "none"
  Reps <- MCReps
  Actors <- MCActors
  Members <- MCMembers
  ActorOf <- MCActorOf
INIT Init
NEXT Next
VIEW noopView
CONSTRAINT NoopBound1
ACTION_CONSTRAINT Edge
INVARIANTS TypeOK RefinesA Converge MergeLaws Hybrid DupNoop StaleNoop ValidateOpOK ValidateMergeSym ValidateMergeOKorKF CtxOK FreshDot
CHECK_DEADLOCK FALSE
