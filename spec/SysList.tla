------------------------------- MODULE SysList -------------------------------
(***************************************************************************)
(* Replicated List (causal delivery, duplicates) and GList (any order,     *)
(* merges): layer B in ReplCore, layer A, properties C12 / C13.            *)
(***************************************************************************)
EXTENDS ListCrdt

CONSTANTS Reps, ActorOf, MaxOps, Regime, UseMerge, UseSnap, UseDup,
          Kind,           \* "list" | "glist"
          BeyondLen,      \* how far past the end insert_index may aim (List clamps)
          DupElems        \* BOOLEAN (GList): also insert copies of an element that is already in the list

VARIABLES st, know, ops, snap, hist

InitSt == IF Kind = "list" THEN ListDefault ELSE GListDefault
Apply(s, op) == IF Kind = "list" THEN ListApply(s, op) ELSE GListApply(s, op)
Merge(a, b) == IF Kind = "list" THEN a ELSE GListMerge(a, b)     \* List has no CvRDT impl
SLen(s) == IF Kind = "list" THEN Len(s.seq) ELSE Len(s)

\* element values are made unique per insert: 10 * actor + the actor's insert number
OwnCount(s, a) == IF Kind = "list" THEN s.clock[a]
                  ELSE Cardinality({i \in 1..Len(s) : GListRead(s)[i] \div 10 = a})
NewVal(s, a) == 10 * a + OwnCount(s, a) + 1

Cmds(s, r) ==
  LET v == NewVal(s, ActorOf[r]) IN
  IF Kind = "list" THEN
       {[c |-> "ins", i |-> i, v |-> v] : i \in 0..(SLen(s) + BeyondLen)}
       \cup {[c |-> "app", i |-> 0, v |-> v]}
       \cup {[c |-> "del", i |-> i, v |-> 0] : i \in 0..(SLen(s) - 1)}
  ELSE {[c |-> "ins", i |-> i, v |-> v] : i \in 0..SLen(s)}
       \cup {[c |-> "after", i |-> i, v |-> v] : i \in 1..SLen(s)}
       \cup {[c |-> "before", i |-> i, v |-> v] : i \in 1..SLen(s)}
       \* a list may hold the same element twice: insert a copy of the RIGHT neighbour just before it
       \* (the new identifier must still be a new one)
       \cup (IF DupElems THEN {[c |-> "after", i |-> i, v |-> GListRead(s)[i + 1]] : i \in 1..(SLen(s) - 1)}
                               \cup {[c |-> "ins", i |-> i, v |-> GListRead(s)[i + 1]] : i \in 1..(SLen(s) - 1)}
             ELSE {})

MkOp(s, r, cmd) ==
  LET a == ActorOf[r] IN
  IF Kind = "list" THEN
       CASE cmd.c = "ins" -> ListInsertIndex(s, cmd.i, cmd.v, a)
         [] cmd.c = "app" -> ListAppend(s, cmd.v, a)
         [] cmd.c = "del" -> ListDeleteIndex(s, cmd.i, a)
  ELSE CASE cmd.c = "ins"    -> GListInsert(s, cmd.i, cmd.v)
         [] cmd.c = "after"  -> GListInsertAfter(s, cmd.i, cmd.v)
         [] cmd.c = "before" -> GListInsertBefore(s, cmd.i, cmd.v)

INSTANCE ReplCore

(***************************************************************************)
(* Layer A.  There is ONE total order on all elements ever inserted (the   *)
(* order of their identifiers in the log, which must therefore be pairwise *)
(* distinct); a replica shows exactly the elements whose insert it knows   *)
(* and whose delete it does not, in that order, each once.                 *)
(***************************************************************************)
IsIns(L, i) == Kind = "glist" \/ L[i].op.kind = "ins"
IdOf(L, i) == L[i].op.id
ValOf(L, i) == IF Kind = "list" THEN L[i].op.val ELSE L[i].op.id[Len(L[i].op.id)][2]
GCmpK(a, b) == IF Kind = "list" THEN LCmp(a, b) ELSE GCmp(a, b)
Deleted(L, K, i) == Kind = "list" /\ \E j \in K : L[j].op.kind = "del" /\ L[j].op.id = IdOf(L, i)
Shown(L, K) == {i \in K : IsIns(L, i) /\ ~Deleted(L, K, i)}
\* the shown elements sorted by the global order
ExpSeq(L, K) ==
  LET S == Shown(L, K)
      Rank(i) == Cardinality({j \in S : GCmpK(IdOf(L, j), IdOf(L, i)) < 0})
      n == Cardinality(S)
  IN [p \in 1..n |-> ValOf(L, CHOOSE i \in S : Rank(i) = p - 1)]
ExpClock(L, K) ==
  [a \in Actors |-> SetMax({OpDot(L[i].op)[2] : i \in {j \in K : OpDot(L[j].op)[1] = a}})]
ExpValidate(L, K, i) ==
  IF Kind = "list" /\ OpDot(L[i].op)[2] > ExpClock(L, K)[OpDot(L[i].op)[1]] + 1 THEN "DotRange" ELSE "Ok"

\* the sequential-list (Vec) model of a local edit: C13
InsertAt(s, i, x) == LET k == IF i > Len(s) THEN Len(s) ELSE i IN SubSeq(s, 1, k) \o <<x>> \o SubSeq(s, k + 1, Len(s))
RemoveAt(s, i) == SubSeq(s, 1, i) \o SubSeq(s, i + 2, Len(s))       \* 0-based i
ReadOf(s) == IF Kind = "list" THEN ListRead(s) ELSE GListRead(s)
VecModel(s, a, cmd) ==
  LET old == ReadOf(s) x == cmd.v IN
  CASE cmd.c = "ins" -> InsertAt(old, cmd.i, x)
    [] cmd.c = "app" -> InsertAt(old, Len(old), x)
    [] cmd.c = "del" -> RemoveAt(old, cmd.i)
    [] cmd.c = "after" -> InsertAt(old, cmd.i, x)          \* immediately after the cmd.i-th (1-based) element
    [] cmd.c = "before" -> InsertAt(old, cmd.i - 1, x)     \* immediately before it

\* ---- properties ---------------------------------------------------------------
\* identifiers tagged with distinct dots never collide (C14 used by C12); for GList
\* two inserts collide only if they are the same insert of the same element
UniqueIds ==
  \A i, j \in 1..Len(ops) :
     (i # j /\ IsIns(ops, i) /\ IsIns(ops, j) /\ IdOf(ops, i) = IdOf(ops, j)) => (Kind = "glist" /\ ops[i].op = ops[j].op)
\* C12: every replica shows the restriction of the one global order
RefinesA == \A r \in Reps : ReadOf(st[r]) = ExpSeq(ops, know[r])
EachOnce == DupElems \/ \A r \in Reps : \A i, j \in 1..Len(ReadOf(st[r])) : i # j => ReadOf(st[r])[i] # ReadOf(st[r])[j]
Converge == \A r, q \in Reps : know[r] = know[q] => st[r] = st[q]
ClockOK == Kind = "list" => \A r \in Reps : st[r].clock = ExpClock(ops, know[r])
DupNoop == \A r \in Reps : \A i \in know[r] : Apply(st[r], ops[i].op) = st[r]
ValidateOpOK ==
  Kind = "list" => \A r \in Reps : \A i \in 1..Len(ops) : ListValidateOp(st[r], ops[i].op) = ExpValidate(ops, know[r], i)
States == {st[r] : r \in Reps}
MergeLaws ==
  Kind = "glist" =>
  \A a, b \in States : /\ Merge(a, b) = Merge(b, a) /\ Merge(a, a) = a
                       /\ \A c \in States : Merge(Merge(a, b), c) = Merge(a, Merge(b, c))
Hybrid == Kind = "glist" => \A a, b \in Reps : ReadOf(Merge(st[a], st[b])) = ExpSeq(ops, know[a] \cup know[b])
\* C13 as an action property: a local edit lands where the Vec model puts it
IndexSemantics ==
  [][\A r \in Reps : IsGenBy(r) => ReadOf(st'[r]) = VecModel(st[r], ActorOf[r], NewOp.cmd)]_vars
=============================================================================
