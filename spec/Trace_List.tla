------------------------------ MODULE Trace_List ------------------------------
(* impl -> spec for List and GList (Kind); see TraceCore.tla.                 *)
(* kinds: drift = recorded internal state is not layer B's; seq = the recorded *)
(* read is not the restriction of the one global order (layer A); op = the op  *)
(* the API built (identifier allocation!) is not the op the spec builds.       *)
EXTENDS SysList, TLC, Json, IOUtils, SequencesExt

CONSTANTS NReps
MCReps == 1..NReps
MCActors == 1..NReps
MCActorOf == [r \in MCReps |-> r]

Rec == ndJsonDeserialize(IOEnv.TRACE)
VARIABLES l, bad
tvars == <<st, know, ops, snap, hist, l, bad>>

CmdOf(x) == x
TC == INSTANCE TraceCore
TInit == TC!TraceInit /\ bad = <<>>

PostOf(p) ==
  IF Kind = "list"
  THEN [seq |-> [i \in 1..Len(p.seq) |-> [id |-> p.seq[i][1], val |-> p.seq[i][2]]], clock |-> p.clock]
  ELSE p.list
OpOf(o) ==
  IF Kind = "glist" THEN [id |-> o.id]
  ELSE IF o.kind = "ins" THEN [kind |-> "ins", id |-> o.id, val |-> o.val]
  ELSE [kind |-> "del", id |-> o.id, actor |-> o.actor, counter |-> o.counter]

\* layer-A view of an op: WHAT is inserted / deleted; which identifier an insert gets is the allocation
\* strategy (layer B) -- a different identifier shows up as drift and, if it is wrong, in the reads
OpAView(o) ==
  IF Kind = "glist" THEN [elem |-> o.id[Len(o.id)][2]]
  ELSE IF o.kind = "ins" THEN [kind |-> "ins", val |-> o.val, tag |-> o.id[Len(o.id)][2]]
  ELSE o

Verdicts(e, r) ==
  LET post == PostOf(e.post)
      K == know'[r]
      b1 == IF post # st'[r] THEN <<[l |-> l, kind |-> "drift"]>> ELSE <<>>
      b2 == IF e.reads.read # ExpSeq(ops', K) \/ e.reads.len # Len(ExpSeq(ops', K))
            THEN <<[l |-> l, kind |-> "seq"]>> ELSE <<>>
      b3 == IF e.a = "gen" /\ OpAView(OpOf(e.op[1])) # OpAView(ops'[Len(ops')].op) THEN <<[l |-> l, kind |-> "op"]>> ELSE <<>>
      \* a local edit lands where the sequential-list model puts it
      b4 == IF e.a = "gen" /\ e.reads.read # VecModel(st[r], ActorOf[r], e.x)
            THEN <<[l |-> l, kind |-> "index"]>> ELSE <<>>
  IN b1 \o b2 \o b3 \o b4

TStep == TC!TraceStep /\ bad' = bad \o (IF Rec[l].a = "panic" THEN <<[l |-> l, kind |-> "panic"]>> ELSE Verdicts(Rec[l], Rec[l].r))
Report == TC!TraceDone => PrintT(<<"VERDICT", ToJson([events |-> Len(Rec), bad |-> bad])>>)
Accepted == (TLCGet("stats").diameter - 1 = Len(Rec)) \/ PrintT(<<"TRACE-NOT-CONSUMED", TLCGet("stats").diameter - 1, Len(Rec)>>)
=============================================================================
