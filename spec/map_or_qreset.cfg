\* Map<K,Orswot> qreset: reset_remove with every clock of [Actors -> 0..2] in every state reached (2 replicas, 2 keys, 2 members, 3 ops, merges)
CONSTANTS
  DescName = "or"
  NReps = 2
  NKeys = 2
  NMembers = 2
  NVals = 1
  MaxOps = 3
  Regime = "causal"
  UseMerge = TRUE
  UseSnap = FALSE
  UseDup = FALSE
  RmVia = FALSE
  DumpReset = TRUE
  ScriptName = "none"
  Reps <- MCReps
  Actors <- MCActors
  Keys <- MCKeys
  Members <- MCMembers
  MvVals <- MCVals
  ActorOf <- MCActorOf
  ValDesc <- MCDesc
INIT Init
NEXT Next
VIEW View
ACTION_CONSTRAINT Edge
INVARIANTS TypeOK KeysOK TopCtxOK FreshDot ResetLaws
CHECK_DEADLOCK FALSE
