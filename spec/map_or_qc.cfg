\* Map<K,Orswot> qc: 2 replicas, 2 keys, 1 member, 4 API ops, causal delivery, no merges
CONSTANTS
  DescName = "or"
  NReps = 2
  NKeys = 2
  NMembers = 1
  NVals = 1
  MaxOps = 4
  Regime = "causal"
  UseMerge = FALSE
  UseSnap = FALSE
  UseDup = FALSE
  RmVia = FALSE
  DumpReset = FALSE
  ScriptName = "none"
  Reps <- MCReps
  Actors <- MCActors
  Keys <- MCKeys
  Members <- MCMembers
  MvVals <- MCVals
  ActorOf <- MCActorOf
  ValDesc <- MCDesc
INIT Init
NEXT Next
VIEW View
ACTION_CONSTRAINT Edge
INVARIANTS TypeOK KeysOK TopCtxOK ValsOK ConvergeReads MergeComm MergeIdem MergeAssoc ValidateMergeOK FreshDot
CHECK_DEADLOCK FALSE
