\* trace validation of gset: 4 replicas; the trace decides every step
CONSTANTS
  Kind = "gset"
  NReps = 4
  MaxOps = 1000
  Regime = "any"
  UseMerge = TRUE
  UseSnap = TRUE
  UseDup = TRUE
  UniqueMarkers = TRUE
  Reps <- MCReps
  Actors <- MCActors
  ActorOf <- MCActorOf
  Vals <- MCNoVals
  Steps <- MCNoVals
  Markers <- MCNoVals
INIT TInit
NEXT TStep
INVARIANT Report
POSTCONDITION Accepted
CHECK_DEADLOCK FALSE
