\* LWWReg misuse: markers may be reused with a different value (validate_op / validate_merge must flag it)
CONSTANTS
  Kind = "lww"
  NReps = 2
  MaxOps = 2
  Regime = "any"
  UseMerge = TRUE
  UseSnap = FALSE
  UseDup = FALSE
  UniqueMarkers = FALSE
  DumpReset = FALSE
  Reps <- MCReps
  Actors <- MCActors
  ActorOf <- MCActorOf
  Vals <- MCValsPos
  Steps <- MCSteps
  Markers <- MCMarkers
INIT Init
NEXT Next
VIEW View
ACTION_CONSTRAINT Edge
INVARIANTS TypeOK RefinesA ReadsOK MergeLaws DupNoop StaleNoop ValidateOpOK ValidateMergeOK ValidateMergeSym ResetLaws
PROPERTY Monotone
CHECK_DEADLOCK FALSE
