\* GSet (thorough): 3 replicas, 3 inserts, any order, merges
CONSTANTS
  Kind = "gset"
  NReps = 3
  MaxOps = 3
  Regime = "any"
  UseMerge = TRUE
  UseSnap = FALSE
  UseDup = FALSE
  UniqueMarkers = TRUE
  DumpReset = FALSE
  Reps <- MCReps
  Actors <- MCActors
  ActorOf <- MCActorOf
  Vals <- MCValsPos
  Steps <- MCSteps
  Markers <- MCMarkers
INIT Init
NEXT Next
VIEW View
ACTION_CONSTRAINT Edge
INVARIANTS TypeOK RefinesA ReadsOK MergeLaws DupNoop StaleNoop ValidateOpOK ValidateMergeOK ValidateMergeSym ResetLaws
PROPERTY Monotone
CHECK_DEADLOCK FALSE
