\* q3all: 3 replicas, 2 members, 3 API ops (add_all, rm): several pending removes carry the SAME context; per-actor FIFO delivery, no merges
CONSTANTS
  NReps = 3
  NMembers = 2
  MaxOps = 3
  Regime = "fifo"
  UseMerge = FALSE
  UseSnap = FALSE
  UseDup = FALSE
  DumpReset = FALSE
  CmdSet = {"addall", "rm"}
  ScriptName = "none"
  Reps <- MCReps
  Actors <- MCActors
  Members <- MCMembers
  ActorOf <- MCActorOf
INIT Init
NEXT Next
VIEW View
ACTION_CONSTRAINT Edge
INVARIANTS TypeOK RefinesA Converge MergeLaws Hybrid DupNoop StaleNoop ValidateOpOK ValidateMergeSym ValidateMergeOKorKF CtxOK FreshDot
CHECK_DEADLOCK FALSE
