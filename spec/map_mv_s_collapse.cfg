\* scenario Map<K,MVReg> (regression of fix 4c1b5ee / KF-18a): replica 4 holds two pending key removes {A:2} -> {k1}, {A:2,C:1} -> {k2}; reset_remove with every clock of [Actors -> 0..2] in every state (e.g. {C:1} makes the two contexts collapse)
CONSTANTS
  DescName = "mv"
  NReps = 4
  NKeys = 2
  NMembers = 1
  NVals = 1
  MaxOps = 5
  Regime = "fifo"
  UseMerge = FALSE
  UseSnap = FALSE
  UseDup = FALSE
  RmVia = TRUE
  DumpReset = TRUE
  ScriptName = "collapsing_pending_keys"
  Reps <- MCReps
  Actors <- MCActors
  Keys <- MCKeys
  Members <- MCMembers
  MvVals <- MCVals
  ActorOf <- MCActorOf
  ValDesc <- MCDesc
INIT ScriptInit
NEXT Next
VIEW View
ACTION_CONSTRAINT Edge
INVARIANTS TypeOK KeysOK TopCtxOK FreshDot
CHECK_DEADLOCK FALSE
