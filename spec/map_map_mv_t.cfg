\* Map<K,Map<K,MVReg>> t: 3 replicas, 1x1 keys, 3 API ops, FIFO delivery, merges
CONSTANTS
  DescName = "map_mv"
  NReps = 3
  NKeys = 1
  NMembers = 1
  NVals = 1
  MaxOps = 3
  Regime = "fifo"
  UseMerge = TRUE
  UseSnap = FALSE
  UseDup = FALSE
  RmVia = FALSE
  DumpReset = FALSE
  ScriptName = "none"
  Reps <- MCReps
  Actors <- MCActors
  Keys <- MCKeys
  Members <- MCMembers
  MvVals <- MCVals
  ActorOf <- MCActorOf
  ValDesc <- MCDesc
INIT Init
NEXT Next
VIEW View
ACTION_CONSTRAINT Edge
INVARIANTS TypeOK KeysOK TopCtxOK FreshDot
CHECK_DEADLOCK FALSE
