\* scenario Map<K,MVReg>, 4 replicas: same-context key removes; two fresh replicas can hold different pending key sets under the SAME clock and then merge
CONSTANTS
  DescName = "mv"
  NReps = 4
  NKeys = 2
  NMembers = 1
  NVals = 1
  MaxOps = 4
  Regime = "fifo"
  UseMerge = TRUE
  UseSnap = FALSE
  UseDup = FALSE
  RmVia = TRUE
  DumpReset = FALSE
  ScriptName = "same_ctx_key_removes"
  Reps <- MCReps
  Actors <- MCActors
  Keys <- MCKeys
  Members <- MCMembers
  MvVals <- MCVals
  ActorOf <- MCActorOf
  ValDesc <- MCDesc
INIT ScriptInit
NEXT Next
VIEW View
ACTION_CONSTRAINT Edge
INVARIANTS TypeOK KeysOK TopCtxOK FreshDot
CHECK_DEADLOCK FALSE
