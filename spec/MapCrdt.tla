------------------------------ MODULE MapCrdt ------------------------------
(***************************************************************************)
(* Layer B for `src/map.rs`: the generic, arbitrarily nested Map, driven   *)
(* by a type descriptor                                                    *)
(*     [t |-> "mv"]  |  [t |-> "or"]  |  [t |-> "map", of |-> Desc]        *)
(* (the Rust type parameter V of Map<K, V, A>).                            *)
(*                                                                         *)
(* Map state: [clock, entries, deferred]                                   *)
(*   entries  : partial function key -> [clock |-> entry clock, val]       *)
(*   deferred : set of <<remove context, set of keys>>                     *)
(* Map ops  : [kind |-> "up", actor, counter, key, op |-> nested op]       *)
(*            [kind |-> "rm", clock, keys]                                 *)
(***************************************************************************)
EXTENDS Orswot, MVReg

CONSTANTS Keys,      \* key universe (the same at every nesting level)
          MvVals,    \* values written into MVReg leaves
          RmVia      \* BOOLEAN: also generate key removes whose context is the whole-map read context
                     \* (m.rm(k, m.read_ctx().derive_rm_ctx()) / len() / is_empty()): several removes then share a clock

MapDefault == [clock |-> Zero, entries |-> EmptyFn, deferred |-> {}]
Has(s, k) == k \in DOMAIN s.entries

RECURSIVE VDefault(_), VApply(_, _, _), VMerge(_, _, _), VReset(_, _, _),
          VValidateOp(_, _, _), VValidateMerge(_, _, _),
          MapApply(_, _, _), MapApplyRm(_, _, _, _), MapApplyRmAll(_, _, _),
          MapMerge(_, _, _), MapReset(_, _, _), MapValidateOp(_, _, _), MapValidateMerge(_, _, _), MapVMPair(_, _, _, _, _)

\* ---- dispatch on the value type (the trait methods of V) ----------------
VDefault(d) == IF d.t = "mv" THEN MvDefault ELSE IF d.t = "or" THEN OrDefault ELSE MapDefault
VApply(d, v, op) ==
  IF d.t = "mv" THEN MvApply(v, op) ELSE IF d.t = "or" THEN OrApply(v, op) ELSE MapApply(d.of, v, op)
VMerge(d, a, b) ==
  IF d.t = "mv" THEN MvMerge(a, b) ELSE IF d.t = "or" THEN OrMerge(a, b) ELSE MapMerge(d.of, a, b)
VReset(d, v, c) ==
  IF d.t = "mv" THEN MvReset(v, c) ELSE IF d.t = "or" THEN OrReset(v, c) ELSE MapReset(d.of, v, c)
VValidateOp(d, v, op) ==
  IF d.t = "mv" THEN "Ok" ELSE IF d.t = "or" THEN OrValidateOp(v, op) ELSE MapValidateOp(d.of, v, op)
VValidateMerge(d, a, b) ==
  IF d.t = "mv" THEN "Ok" ELSE IF d.t = "or" THEN OrValidateMerge(a, b) ELSE MapValidateMerge(d.of, a, b)

\* ---- Map::apply_keyset_rm (map.rs:410-439); e = descriptor of the values --
MapApplyRm(e, s, ks, c) ==
  LET touched == {k \in ks : Has(s, k)}
      dead == {k \in touched : IsZero(Forget(s.entries[k].clock, c))}
      e2 == [k \in (DOMAIN s.entries) \ dead |->
               IF k \in touched
               THEN [clock |-> Forget(s.entries[k].clock, c), val |-> VReset(e, s.entries[k].val, c)]
               ELSE s.entries[k]]
  IN [s EXCEPT !.entries = e2,
               !.deferred = IF Cmp(s.clock, c) \in {"NONE", "LT"}
                            THEN DefInsert(s.deferred, c, ks) ELSE s.deferred]

MapApplyRmAll(e, s, todo) ==
  IF todo = {} THEN s
  ELSE LET p == CHOOSE p \in todo : TRUE
       IN MapApplyRmAll(e, MapApplyRm(e, s, p[2], p[1]), todo \ {p})

\* Map::apply_deferred (map.rs:402-407)
MapApplyDeferred(e, s) == MapApplyRmAll(e, [s EXCEPT !.deferred = {}], s.deferred)

\* CmRDT::apply (map.rs:186-204)
MapApply(e, s, op) ==
  IF op.kind = "up" THEN
    IF s.clock[op.actor] >= op.counter THEN s            \* seen already
    ELSE LET old == IF Has(s, op.key) THEN s.entries[op.key] ELSE [clock |-> Zero, val |-> VDefault(e)]
             new == [clock |-> Bump(old.clock, op.actor, op.counter), val |-> VApply(e, old.val, op.op)]
             e2 == [k \in (DOMAIN s.entries) \cup {op.key} |-> IF k = op.key THEN new ELSE s.entries[k]]
         IN MapApplyDeferred(e, [s EXCEPT !.entries = e2, !.clock = Bump(s.clock, op.actor, op.counter)])
  ELSE MapApplyRm(e, s, op.keys, op.clock)

\* CvRDT::merge (map.rs:237-315)
MapMerge(e, s, o) ==
  LET onlyS == {k \in DOMAIN s.entries : ~Has(o, k)}
      onlyO == {k \in DOMAIN o.entries : ~Has(s, k)}
      both == {k \in DOMAIN s.entries : Has(o, k)}
      keepS == {k \in onlyS : ~Ge(o.clock, s.entries[k].clock)}
      keepO == {k \in onlyO : ~Ge(s.clock, o.entries[k].clock)}
      Common(k) == Join(Join(Inter(o.entries[k].clock, s.entries[k].clock),
                             CloneWithout(o.entries[k].clock, s.clock)),
                        CloneWithout(s.entries[k].clock, o.clock))
      keepB == {k \in both : ~IsZero(Common(k))}
      e2 == [k \in keepS \cup keepO \cup keepB |->
              IF k \in keepS THEN
                 LET ec == Forget(s.entries[k].clock, o.clock) IN
                 [clock |-> ec, val |-> VReset(e, s.entries[k].val, Forget(o.clock, ec))]
              ELSE IF k \in keepO THEN
                 LET ec == Forget(o.entries[k].clock, s.clock) IN
                 [clock |-> ec, val |-> VReset(e, o.entries[k].val, Forget(s.clock, ec))]
              ELSE
                 LET cm == Common(k)
                     del == Forget(Join(o.entries[k].clock, s.entries[k].clock), cm) IN
                 [clock |-> cm, val |-> VReset(e, VMerge(e, s.entries[k].val, o.entries[k].val), del)]]
      s1 == MapApplyRmAll(e, [s EXCEPT !.entries = e2], o.deferred)
  IN MapApplyDeferred(e, [s1 EXCEPT !.clock = Join(s.clock, o.clock)])

\* ResetRemove::reset_remove (map.rs:90-119), pending table rebuilt with insert-or-union
MapReset(e, s, c) ==
  LET live == {k \in DOMAIN s.entries : ~IsZero(Forget(s.entries[k].clock, c))}
  IN [clock |-> Forget(s.clock, c),
      entries |-> [k \in live |-> [clock |-> Forget(s.entries[k].clock, c), val |-> VReset(e, s.entries[k].val, c)]],
      deferred |-> LET cs == {Forget(p[1], c) : p \in s.deferred} \ {Zero}
                   IN {<<k, UNION {p[2] : p \in {q \in s.deferred : Forget(q[1], c) = k}}>> : k \in cs}]

\* CmRDT::validate_op (map.rs:169-184, after the removal of the entry-clock check)
MapValidateOp(e, s, op) ==
  IF op.kind = "rm" THEN "Ok"
  ELSE IF ClockValidate(s.clock, op.actor, op.counter) # "Ok" THEN "SourceOrder"
  ELSE LET v == IF Has(s, op.key) THEN s.entries[op.key].val ELSE VDefault(e) IN
       IF VValidateOp(e, v, op.op) # "Ok" THEN "Value" ELSE "Ok"

\* CvRDT::validate_merge (map.rs:212-235): two nested loops over the keys of both maps in key order; the FIRST pair
\* that has a complaint decides which error is reported (a dot of our entry k1 that is the current dot of the same actor
\* in their entry k2 # k1 -> DoubleSpentDot; k1 = k2 with concurrent entry clocks and conflicting values -> Value)
MapVMPair(e, s, o, k1, k2) ==
  IF k1 # k2 /\ \E a \in Actors : s.entries[k1].clock[a] > 0 /\ o.entries[k2].clock[a] = s.entries[k1].clock[a]
  THEN "DoubleSpentDot"
  ELSE IF k1 = k2 /\ Concurrent(s.entries[k1].clock, o.entries[k2].clock)
          /\ VValidateMerge(e, s.entries[k1].val, o.entries[k2].val) # "Ok"
  THEN "Value" ELSE "Ok"
MapValidateMerge(e, s, o) ==
  LET bad == {p \in (DOMAIN s.entries) \X (DOMAIN o.entries) : MapVMPair(e, s, o, p[1], p[2]) # "Ok"} IN
  IF bad = {} THEN "Ok"
  ELSE LET m == CHOOSE p \in bad : \A q \in bad : p[1] < q[1] \/ (p[1] = q[1] /\ p[2] <= q[2])
       IN MapVMPair(e, s, o, m[1], m[2])

\* ---- reads (map.rs:325-353, 473-565) ------------------------------------
MapKeys(s) == DOMAIN s.entries
MapGet(s, k) == [add |-> s.clock,
                 rm  |-> IF Has(s, k) THEN s.entries[k].clock ELSE Zero,
                 val |-> IF Has(s, k) THEN <<s.entries[k].val>> ELSE <<>>]
MapReadCtx(s) == [add |-> s.clock, rm |-> s.clock]

\* ---- op constructors -----------------------------------------------------
\* Map::update(key, ctx, f): Up{dot: ctx.dot, key, op: f(current value or default, ctx)};
\* ctx = <some read>.derive_add_ctx(actor): clock = map clock with the actor's entry
\* incremented, dot = that entry.  f receives the SAME ctx (map-wide clock and dot).
\* ValOp(e, v, a, ctx, cmd): the nested op f builds for command cmd on value v.
RECURSIVE ValOp(_, _, _, _, _)
ValOp(e, v, a, ctx, cmd) ==
  IF e.t = "mv" THEN [clock |-> ctx.clock, val |-> cmd.v, actor |-> a]          \* reg.write(v, ctx)
  ELSE IF e.t = "or" THEN
     IF cmd.c = "add" THEN [kind |-> "add", actor |-> a, counter |-> ctx.counter, members |-> {cmd.m}]  \* set.add(m, ctx)
     ELSE [kind |-> "rm", clock |-> OrContains(v, cmd.m).rm, members |-> {cmd.m}]  \* set.rm(m, set.contains(&m).derive_rm_ctx())
  ELSE
     IF cmd.c = "up" THEN
        LET inner == IF Has(v, cmd.k) THEN v.entries[cmd.k].val ELSE VDefault(e.of) IN
        [kind |-> "up", actor |-> a, counter |-> ctx.counter, key |-> cmd.k,
         op |-> ValOp(e.of, inner, a, ctx, cmd.sub)]                               \* inner.update(k, ctx, f')
     ELSE IF cmd.c = "rmv" THEN [kind |-> "rm", clock |-> MapReadCtx(v).rm, keys |-> {cmd.k}]   \* inner.rm(k, inner.read_ctx().derive_rm_ctx())
     ELSE [kind |-> "rm", clock |-> MapGet(v, cmd.k).rm, keys |-> {cmd.k}]         \* inner.rm(k, inner.get(&k).derive_rm_ctx())

\* top level: ctx derived from the map's own read context
MapMkOp(e, s, a, cmd) ==
  LET n == IncCounter(MapReadCtx(s).add, a)
      ctx == [clock |-> Bump(MapReadCtx(s).add, a, n), counter |-> n] IN
  ValOp([t |-> "map", of |-> e], s, a, ctx, cmd)

\* commands a replica may issue on a value of type e in local state v
RECURSIVE ValCmds(_, _)
ValCmds(e, v) ==
  IF e.t = "mv" THEN {[c |-> "write", v |-> x] : x \in MvVals}
  ELSE IF e.t = "or" THEN
       {[c |-> "add", m |-> m] : m \in Members} \cup {[c |-> "rm", m |-> m] : m \in {x \in Members : OrHas(v, x)}}
  ELSE UNION {{[c |-> "up", k |-> k, sub |-> sc] :
                  sc \in ValCmds(e.of, IF Has(v, k) THEN v.entries[k].val ELSE VDefault(e.of))} : k \in Keys}
       \cup {[c |-> "rm", k |-> k] : k \in DOMAIN v.entries}
       \cup (IF RmVia THEN {[c |-> "rmv", k |-> k] : k \in DOMAIN v.entries} ELSE {})
=============================================================================
