------------------------------- MODULE SysMap -------------------------------
(***************************************************************************)
(* Replicated Map<K, V> for a value type V given by a descriptor           *)
(* (MapCrdt.tla), in the environment of ReplCore, with the declarative     *)
(* reset-remove meaning of nested maps (layer A) and the properties.       *)
(***************************************************************************)
EXTENDS MapCrdt

CONSTANTS Reps, ActorOf, MaxOps, Regime, UseMerge, UseSnap, UseDup,
          ValDesc        \* descriptor of V

VARIABLES st, know, ops, snap, hist

TopDesc == [t |-> "map", of |-> ValDesc]
InitSt == MapDefault
Apply(s, op) == MapApply(ValDesc, s, op)
Merge(a, b) == MapMerge(ValDesc, a, b)
Cmds(s, r) == ValCmds(TopDesc, s)
MkOp(s, r, cmd) == MapMkOp(ValDesc, s, ActorOf[r], cmd)

INSTANCE ReplCore

(***************************************************************************)
(* Layer A.  A datum written by a dotted op u along key path k1..kn is     *)
(* alive iff no known key-remove at any prefix level covers dot(u) and the *)
(* leaf rule keeps it; a key path is present iff some known dotted op      *)
(* through it is not covered by the removes above it.                      *)
(*                                                                         *)
(* X    : the sub-log routed to one value: records [i, a, n, op] = log     *)
(*        index, dot of the carrying top-level update, op at this level    *)
(* Kills: contexts of the key-removes (of outer levels) that apply here    *)
(***************************************************************************)
RECURSIVE Past(_, _)
Past(L, i) == L[i].deps \cup UNION {Past(L, j) : j \in L[i].deps}

AliveX(x, Kills) == \A c \in Kills : c[x.a] < x.n

RECURSIVE Sem(_, _, _, _)
Sem(d, L, X, Kills) ==
  IF d.t = "mv" THEN
     \* the writes that survive the removes and that no known write to this register had observed
     LET vis == {x \in X : AliveX(x, Kills) /\ ~\E y \in X : x.i \in Past(L, y.i)} IN
     [t |-> "mv",
      vals |-> [v \in {x.op.val : x \in vis} |-> Cardinality({x \in vis : x.op.val = v})]]
  ELSE IF d.t = "or" THEN
     [t |-> "or",
      members |-> {m \in Members :
                     \E x \in X : /\ x.op.kind = "add" /\ m \in x.op.members /\ AliveX(x, Kills)
                                  /\ ~\E y \in X : y.op.kind = "rm" /\ m \in y.op.members
                                                   /\ y.op.clock[x.a] >= x.n}]
  ELSE
     LET RmC(k) == {y.op.clock : y \in {z \in X : z.op.kind = "rm" /\ k \in z.op.keys}}
         Ups(k) == {x \in X : x.op.kind = "up" /\ x.op.key = k}
         present == {k \in Keys : \E x \in Ups(k) : AliveX(x, Kills \cup RmC(k))} IN
     [t |-> "map",
      keys |-> present,
      vals |-> [k \in present |->
                  Sem(d.of, L, {[i |-> x.i, a |-> x.a, n |-> x.n, op |-> x.op.op] : x \in Ups(k)},
                      Kills \cup RmC(k))]]

TopX(L, K) ==
  {[i |-> i,
    a |-> IF L[i].op.kind = "up" THEN L[i].op.actor ELSE 0,
    n |-> IF L[i].op.kind = "up" THEN L[i].op.counter ELSE 0,
    op |-> L[i].op] : i \in K}

ExpSem(L, K) == Sem(TopDesc, L, TopX(L, K), {})

IsUp(L, i) == L[i].op.kind = "up"
IsRm(L, i) == L[i].op.kind = "rm"
\* top-level contexts
ExpClock(L, K) ==
  [a \in Actors |-> SetMax({L[i].op.counter : i \in {j \in K : IsUp(L, j) /\ L[j].op.actor = a}})]
KeyCovered(L, K, k, a, n) == \E j \in K : IsRm(L, j) /\ k \in L[j].op.keys /\ L[j].op.clock[a] >= n
AliveUps(L, K, k) ==
  {i \in K : IsUp(L, i) /\ L[i].op.key = k /\ ~KeyCovered(L, K, k, L[i].op.actor, L[i].op.counter)}
ExpWit(L, K, k) ==
  [a \in Actors |-> SetMax({L[i].op.counter : i \in {j \in AliveUps(L, K, k) : L[j].op.actor = a}})]
PendingRms(L, K) == {j \in K : IsRm(L, j) /\ ~Leq(L[j].op.clock, ExpClock(L, K))}
ExpPending(L, K) ==
  {<<c, UNION {L[j].op.keys : j \in {x \in PendingRms(L, K) : L[x].op.clock = c}}>> :
     c \in {L[j].op.clock : j \in PendingRms(L, K)}}
ExpValidate(L, K, i) ==
  IF IsUp(L, i) /\ L[i].op.counter > ExpClock(L, K)[L[i].op.actor] + 1 THEN "SourceOrder" ELSE "Ok"

\* ---- what layer B shows, in the shape of Sem ------------------------------
RECURSIVE Shown(_, _)
Shown(d, v) ==
  IF d.t = "mv" THEN
     [t |-> "mv",
      vals |-> [x \in {v.vals[i].v : i \in 1..Len(v.vals)} |-> Cardinality({i \in 1..Len(v.vals) : v.vals[i].v = x})]]
  ELSE IF d.t = "or" THEN [t |-> "or", members |-> OrReadSet(v)]
  ELSE [t |-> "map", keys |-> DOMAIN v.entries,
        vals |-> [k \in DOMAIN v.entries |-> Shown(d.of, v.entries[k].val)]]

\* structural equality as the Rust == sees it (registers are compared as bags)
RECURSIVE VEq(_, _, _)
VEq(d, a, b) ==
  IF d.t = "mv" THEN MvBag(a) = MvBag(b)
  ELSE IF d.t = "or" THEN a = b
  ELSE /\ a.clock = b.clock /\ a.deferred = b.deferred /\ DOMAIN a.entries = DOMAIN b.entries
       /\ \A k \in DOMAIN a.entries :
             a.entries[k].clock = b.entries[k].clock /\ VEq(d.of, a.entries[k].val, b.entries[k].val)
\* some register inside v holds the same <<clock, value>> pair twice (the type's == then panics)
RECURSIVE HasDupPair(_, _)
HasDupPair(d, v) ==
  IF d.t = "mv" THEN MvHasDuplicatePair(v)
  ELSE IF d.t = "or" THEN FALSE
  ELSE \E k \in DOMAIN v.entries : HasDupPair(d.of, v.entries[k].val)
SEq(a, b) == VEq(TopDesc, a, b)
REq(a, b) == Shown(TopDesc, a) = Shown(TopDesc, b)

\* ---- properties -----------------------------------------------------------
\* C05, split by observable class so that the clean classes are enforced strictly
KeysOK == \A r \in Reps : DOMAIN st[r].entries = ExpSem(ops, know[r]).keys
TopCtxOK ==
  \A r \in Reps :
     /\ st[r].clock = ExpClock(ops, know[r])
     /\ \A k \in Keys : MapGet(st[r], k).rm = ExpWit(ops, know[r], k)
     /\ st[r].deferred = ExpPending(ops, know[r])
ValsOK == \A r \in Reps : Shown(TopDesc, st[r]) = ExpSem(ops, know[r])
\* C01 on reads
ConvergeReads == \A r, q \in Reps : know[r] = know[q] => Shown(TopDesc, st[r]) = Shown(TopDesc, st[q])
\* C20
ConvergeState == \A r, q \in Reps : know[r] = know[q] => st[r] = st[q]
States == {st[r] : r \in Reps} \cup (IF snap = <<>> THEN {} ELSE {snap[1]})
\* C02 (on reads)
MergeComm == \A a, b \in States : Shown(TopDesc, Merge(a, b)) = Shown(TopDesc, Merge(b, a))
MergeIdem == \A a \in States : Shown(TopDesc, Merge(a, a)) = Shown(TopDesc, a)
MergeAssoc == \A a, b, c \in States : Shown(TopDesc, Merge(Merge(a, b), c)) = Shown(TopDesc, Merge(a, Merge(b, c)))
\* C03
Hybrid == \A a, b \in Reps : Shown(TopDesc, Merge(st[a], st[b])) = ExpSem(ops, know[a] \cup know[b])
\* C09
DupNoop == \A r \in Reps : \A i \in know[r] : Apply(st[r], ops[i].op) = st[r]
StaleNoop == \A r, q \in Reps : know[q] \subseteq know[r] => Shown(TopDesc, Merge(st[r], st[q])) = Shown(TopDesc, st[r])
\* C16
ValidateOpOK ==
  \A r \in Reps : \A i \in 1..Len(ops) :
     MapValidateOp(ValDesc, st[r], ops[i].op) = ExpValidate(ops, know[r], i)
\* C17
ValidateMergeOK == \A a, b \in States : MapValidateMerge(ValDesc, a, b) = "Ok"
\* C17, second half (misuse configs): an error exactly when some dot is the current witness of one key in one
\* state and of a different key in the other, or the nested values of a concurrently edited key conflict
ExpVM(a, b) ==
  IF \E k1 \in DOMAIN a.entries, k2 \in DOMAIN b.entries, x \in Actors :
        k1 # k2 /\ a.entries[k1].clock[x] > 0 /\ b.entries[k2].clock[x] = a.entries[k1].clock[x]
  THEN (IF MapValidateMerge(ValDesc, a, b) # "Ok" THEN MapValidateMerge(ValDesc, a, b) ELSE "DoubleSpentDot")   \* SOME error; which of several is reported first is the algorithm's choice
  ELSE MapValidateMerge(ValDesc, a, b)
\* C07
FreshDot ==
  \A r \in Reps : \A i \in 1..Len(ops) :
     (IsUp(ops, i) /\ ops[i].author = r) => ops[i].op.counter < IncCounter(MapReadCtx(st[r]).add, ActorOf[r])
\* C18
ClockU == [Actors -> 0..2]
ResetLaws ==
  \A r \in Reps :
     /\ MapReset(ValDesc, st[r], Zero) = st[r]
     /\ MapReset(ValDesc, st[r], st[r].clock).entries = EmptyFn
     /\ \A c \in ClockU :
          /\ MapReset(ValDesc, MapReset(ValDesc, st[r], c), c) = MapReset(ValDesc, st[r], c)
          /\ \A d \in ClockU : MapReset(ValDesc, MapReset(ValDesc, st[r], c), d) = MapReset(ValDesc, st[r], Join(c, d))
=============================================================================
