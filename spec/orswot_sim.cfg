\* simulation: 4 replicas, 3 members, up to 8 API ops, every command, per-actor FIFO delivery, duplicates, merges, one stale snapshot
CONSTANTS
  NReps = 4
  NMembers = 3
  MaxOps = 8
  Regime = "fifo"
  UseMerge = TRUE
  UseSnap = TRUE
  UseDup = TRUE
  DumpReset = FALSE
  CmdSet = {"add", "rm", "addall", "rmall", "rmabsent"}
  ScriptName = "none"
  Reps <- MCReps
  Actors <- MCActors
  Members <- MCMembers
  ActorOf <- MCActorOf
INIT Init
NEXT Next
ACTION_CONSTRAINT Edge
INVARIANTS TypeOK RefinesA Converge DupNoop ValidateOpOK CtxOK FreshDot
CHECK_DEADLOCK FALSE
