\* trace validation of glist: 4 replicas; the trace decides every step
CONSTANTS
  Kind = "glist"
  NReps = 4
  MaxOps = 1000
  Regime = "any"
  UseMerge = TRUE
  UseSnap = TRUE
  UseDup = TRUE
  DupElems = FALSE
  BeyondLen = 1
  Reps <- MCReps
  Actors <- MCActors
  ActorOf <- MCActorOf
INIT TInit
NEXT TStep
INVARIANT Report
POSTCONDITION Accepted
CHECK_DEADLOCK FALSE
