\* Map<K,Orswot> tm: 2 replicas, 2 keys, 2 members, 4 API ops, causal delivery, merges
CONSTANTS
  DescName = "or"
  NReps = 2
  NKeys = 2
  NMembers = 2
  NVals = 1
  MaxOps = 4
  Regime = "causal"
  UseMerge = TRUE
  UseSnap = FALSE
  UseDup = FALSE
  RmVia = FALSE
  DumpReset = FALSE
  ScriptName = "none"
  Reps <- MCReps
  Actors <- MCActors
  Keys <- MCKeys
  Members <- MCMembers
  MvVals <- MCVals
  ActorOf <- MCActorOf
  ValDesc <- MCDesc
INIT Init
NEXT Next
VIEW View
ACTION_CONSTRAINT Edge
INVARIANTS TypeOK KeysOK TopCtxOK FreshDot
CHECK_DEADLOCK FALSE
