\* scenario Map<K,Orswot>: the same actor updates a key twice around a concurrent remove that saw only the first update; then 2 more API ops and free exploration (2 replicas, merges)
CONSTANTS
  DescName = "or"
  NReps = 2
  NKeys = 1
  NMembers = 2
  NVals = 1
  MaxOps = 5
  Regime = "fifo"
  UseMerge = TRUE
  UseSnap = FALSE
  UseDup = FALSE
  RmVia = FALSE
  DumpReset = FALSE
  ScriptName = "update_rm_update"
  Reps <- MCReps
  Actors <- MCActors
  Keys <- MCKeys
  Members <- MCMembers
  MvVals <- MCVals
  ActorOf <- MCActorOf
  ValDesc <- MCDesc
INIT ScriptInit
NEXT Next
VIEW View
ACTION_CONSTRAINT Edge
INVARIANTS TypeOK KeysOK TopCtxOK FreshDot
CHECK_DEADLOCK FALSE
