\* q3: 3 replicas, equal values only (1 value), 3 writes, any delivery order, merges
CONSTANTS
  NReps = 3
  NVals = 1
  MaxOps = 3
  Regime = "any"
  UseMerge = TRUE
  UseSnap = FALSE
  UseDup = FALSE
  DumpReset = FALSE
  ScriptName = "none"
  Reps <- MCReps
  Actors <- MCActors
  Vals <- MCVals
  ActorOf <- MCActorOf
INIT Init
NEXT Next
VIEW View
ACTION_CONSTRAINT Edge
INVARIANTS TypeOK RefinesA NoDuplicatePair Converge MergeLaws Hybrid DupNoop StaleNoop FreshDot
CHECK_DEADLOCK FALSE
