----------------------------- MODULE SysOrswot -----------------------------
(***************************************************************************)
(* Replicated Orswot: layer B (Orswot.tla) placed in the environment of    *)
(* ReplCore.tla, plus layer A -- the declarative meaning of an             *)
(* observed-remove add-wins set as a function of the set of ops a replica  *)
(* has learned of -- and the properties relating the two.                  *)
(***************************************************************************)
EXTENDS Orswot

CONSTANTS Reps, ActorOf, MaxOps, Regime, UseMerge, UseSnap, UseDup,
          CmdSet      \* subset of {"add","addall","rm","rmabsent","rmall"}

VARIABLES st, know, ops, snap, hist

InitSt == OrDefault
Apply(s, op) == OrApply(s, op)
Merge(a, b) == OrMerge(a, b)

NoSet == {}
Cmds(s, r) ==
     (IF "add" \in CmdSet THEN {[c |-> "add", m |-> m, ms |-> NoSet] : m \in Members} ELSE {})
  \cup (IF "addall" \in CmdSet
        THEN {[c |-> "addall", m |-> 0, ms |-> ms] : ms \in {x \in SUBSET Members : Cardinality(x) >= 2}} ELSE {})
  \cup (IF "rm" \in CmdSet
        THEN {[c |-> "rm", m |-> m, ms |-> NoSet] : m \in {x \in Members : OrHas(s, x) \/ "rmabsent" \in CmdSet}} ELSE {})
  \cup (IF "rmall" \in CmdSet
        THEN {[c |-> "rmall", m |-> 0, ms |-> ms] : ms \in (SUBSET Members) \ {{}}} ELSE {})

MkOp(s, r, cmd) ==
  CASE cmd.c = "add"    -> OrAdd(s, ActorOf[r], {cmd.m})
    [] cmd.c = "addall" -> OrAdd(s, ActorOf[r], cmd.ms)
    [] cmd.c = "rm"     -> OrRm(s, cmd.m)
    [] cmd.c = "rmall"  -> OrRmAll(s, cmd.ms)

INSTANCE ReplCore

(***************************************************************************)
(* Layer A.  L is the op log, K a knowledge set (indices into L).          *)
(* Nothing below mentions witness clocks being merged, deferred tables or  *)
(* merge case analysis: "m is in the set iff some known add of m is not    *)
(* covered by the context of a known remove of m".                         *)
(***************************************************************************)
IsAdd(L, i) == L[i].op.kind = "add"
IsRm(L, i)  == L[i].op.kind = "rm"
Covered(L, K, m, a, n) ==
  \E j \in K : IsRm(L, j) /\ m \in L[j].op.members /\ L[j].op.clock[a] >= n
AliveAdds(L, K, m) ==
  {i \in K : IsAdd(L, i) /\ m \in L[i].op.members
             /\ ~Covered(L, K, m, L[i].op.actor, L[i].op.counter)}
ExpSet(L, K) == {m \in Members : AliveAdds(L, K, m) # {}}
\* add context: per actor the newest known add
ExpClock(L, K) ==
  [a \in Actors |-> SetMax({L[i].op.counter : i \in {j \in K : IsAdd(L, j) /\ L[j].op.actor = a}})]
\* remove context of m: per actor the newest surviving add of m
ExpWit(L, K, m) ==
  [a \in Actors |-> SetMax({L[i].op.counter : i \in {j \in AliveAdds(L, K, m) : L[j].op.actor = a}})]
\* removes that are still waiting for something they observed
PendingRms(L, K) == {j \in K : IsRm(L, j) /\ ~Leq(L[j].op.clock, ExpClock(L, K))}
ExpPending(L, K) ==
  {<<c, UNION {L[j].op.members : j \in {x \in PendingRms(L, K) : L[x].op.clock = c}}>> :
     c \in {L[j].op.clock : j \in PendingRms(L, K)}}
\* the state that holds just the replica clock, the surviving elements with
\* their witnesses and the removes that are still waiting (property C20)
Canon(L, K) ==
  [clock    |-> ExpClock(L, K),
   entries  |-> [m \in Members |-> ExpWit(L, K, m)],
   deferred |-> ExpPending(L, K)]

\* validate_op: an ordering error iff the op's dot would skip one of its
\* actor's adds
ExpValidate(L, K, i) ==
  IF IsAdd(L, i) /\ L[i].op.counter > ExpClock(L, K)[L[i].op.actor] + 1 THEN "DotRange" ELSE "Ok"

\* reset_remove(c) read declaratively: drop every dot covered by c
ExpAfterReset(L, K, c) ==
  [clock    |-> Forget(ExpClock(L, K), c),
   entries  |-> [m \in Members |-> Forget(ExpWit(L, K, m), c)],
   deferred |-> LET P == ExpPending(L, K)
                    cs == {Forget(p[1], c) : p \in P} \ {Zero}
                IN {<<k, UNION {p[2] : p \in {q \in P : Forget(q[1], c) = k}}>> : k \in cs}]

(***************************************************************************)
(* Properties (on layer B, decided by TLC; the same statements are decided *)
(* on the real code by the harness from the dump lines of MC_Orswot).      *)
(***************************************************************************)
\* C04/C07/C08/C20: every replica is in the canonical state of its knowledge
RefinesA == \A r \in Reps : st[r] = Canon(ops, know[r])
\* C01
Converge == \A r, q \in Reps : know[r] = know[q] => st[r] = st[q]
States == {st[r] : r \in Reps} \cup (IF snap = <<>> THEN {} ELSE {snap[1]})
\* C02
MergeLaws ==
  \A a, b \in States :
     /\ Merge(a, b) = Merge(b, a)
     /\ Merge(a, a) = a
     /\ \A c \in States : Merge(Merge(a, b), c) = Merge(a, Merge(b, c))
\* C03
Hybrid == \A a, b \in Reps : Merge(st[a], st[b]) = Canon(ops, know[a] \cup know[b])
\* C09
DupNoop == \A r \in Reps : \A i \in know[r] : Apply(st[r], ops[i].op) = st[r]
StaleNoop ==
  /\ \A r, q \in Reps : know[q] \subseteq know[r] => Merge(st[r], st[q]) = st[r]
  /\ snap # <<>> => \A r \in Reps : snap[2] \subseteq know[r] => Merge(st[r], snap[1]) = st[r]
\* C16
ValidateOpOK ==
  \A r \in Reps : \A i \in 1..Len(ops) :
     OrValidateOp(st[r], ops[i].op) = ExpValidate(ops, know[r], i)
\* C17 (fails by design after an add_all of two members: KF-17a)
ValidateMergeOK == \A a, b \in States : OrValidateMerge(a, b) = "Ok"
ValidateMergeSym == \A a, b \in States : OrValidateMerge(a, b) = OrValidateMerge(b, a)
ValidateMergeOKorKF ==
  \A a, b \in States : OrValidateMerge(a, b) = "Ok"
     \/ \E i \in 1..Len(ops) : IsAdd(ops, i) /\ Cardinality(ops[i].op.members) >= 2
\* C17, second half (misuse configs, where two replicas edit through one actor): an error exactly when some
\* dot is the current witness of one member in one state and of a different member in the other
ExpVM(a, b) ==
  IF \E m1, m2 \in Members, x \in Actors : m1 # m2 /\ a.entries[m1][x] > 0 /\ b.entries[m2][x] = a.entries[m1][x]
  THEN "DoubleSpentDot" ELSE "Ok"
ValidateMergeFlags == \A a, b \in States : OrValidateMerge(a, b) = ExpVM(a, b)
\* C07
CtxOK ==
  \A r \in Reps :
     /\ \A m \in Members : Leq(OrContains(st[r], m).rm, OrContains(st[r], m).add)
     /\ \A m \in Members : IsZero(OrContains(st[r], m).rm) <=> ~OrContains(st[r], m).val
     /\ OrRead(st[r]).add = ExpClock(ops, know[r])
\* the next dot an actor derives at its home replica was never issued before
FreshDot ==
  \A r \in Reps : \A i \in 1..Len(ops) :
     (IsAdd(ops, i) /\ ops[i].op.actor = ActorOf[r] /\ ops[i].author = r)
        => ops[i].op.counter < IncCounter(OrReadCtx(st[r]).add, ActorOf[r])
\* C18
ClockU == [Actors -> 0..2]
ResetLaws ==
  \A r \in Reps :
     /\ OrReset(st[r], Zero) = st[r]
     /\ OrReadSet(OrReset(st[r], st[r].clock)) = {}
     /\ \A c \in ClockU :
          /\ OrReset(st[r], c) = ExpAfterReset(ops, know[r], c)
          /\ OrReset(OrReset(st[r], c), c) = OrReset(st[r], c)
          /\ \A d \in ClockU : OrReset(OrReset(st[r], c), d) = OrReset(st[r], Join(c, d))
=============================================================================
