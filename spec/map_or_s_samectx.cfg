\* scenario Map<K,Orswot>: A updates k1 and k2; B (saw both) removes k1 and k2 with ONE whole-map read context (same clock); then free exploration with 3 replicas (FIFO, merges)
CONSTANTS
  DescName = "or"
  NReps = 3
  NKeys = 2
  NMembers = 1
  NVals = 1
  MaxOps = 4
  Regime = "fifo"
  UseMerge = TRUE
  UseSnap = FALSE
  UseDup = FALSE
  RmVia = TRUE
  DumpReset = FALSE
  ScriptName = "same_ctx_key_removes"
  Reps <- MCReps
  Actors <- MCActors
  Keys <- MCKeys
  Members <- MCMembers
  MvVals <- MCVals
  ActorOf <- MCActorOf
  ValDesc <- MCDesc
INIT ScriptInit
NEXT Next
VIEW View
ACTION_CONSTRAINT Edge
INVARIANTS TypeOK KeysOK TopCtxOK FreshDot
CHECK_DEADLOCK FALSE
