\* trace validation: 4 replicas, 3 members; the environment constants are irrelevant (the trace decides every step)
CONSTANTS
  NReps = 4
  NMembers = 3
  MaxOps = 1000
  Regime = "any"
  UseMerge = TRUE
  UseSnap = TRUE
  UseDup = TRUE
  CmdSet = {"add", "rm", "addall", "rmall", "rmabsent"}
  Reps <- MCReps
  Actors <- MCActors
  Members <- MCMembers
  ActorOf <- MCActorOf
INIT TInit
NEXT TStep
INVARIANT Report
POSTCONDITION Accepted
CHECK_DEADLOCK FALSE
