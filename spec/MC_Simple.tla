----------------------------- MODULE MC_Simple -----------------------------
EXTENDS SysSimple, TLC, Json, SequencesExt

CONSTANTS NReps, DumpReset

MCReps == 1..NReps
MCActors == 1..NReps
MCActorOf == [r \in MCReps |-> r]
MCValsPos == {1, 2}
MCValsInt == {-1, 0, 1, 2}     \* includes the default value 0 (an explicit write of the default must behave like any other write)
MCSteps == {0, 2}
MCMarkers == 1..3

View == coreView

ProjB(s) ==
  CASE Kind = "gcounter"  -> [clock |-> s]
    [] Kind = "pncounter" -> [p |-> s.p, n |-> s.n]
    [] Kind = "lww"       -> [val |-> s.val, marker |-> s.marker]
    [] Kind \in {"max", "min"} -> [val |-> s.val]
    [] Kind = "gset"      -> [set |-> s]

Who == LET a == Last(hist') IN IF a[1] = "save" THEN 0 ELSE a[2]

CUSeq == SetToSeq(ClockU)

Line ==
  LET r == Who K == know'[r] IN
  [h   |-> hist',
   who |-> r,
   B   |-> ProjB(st'[r]),
   A   |-> [read |-> ExpRead(ops', K), canon |-> ProjB(Canon(ops', K)), ambiguous |-> AmbiguousL(ops', K)],
   op  |-> IF Last(hist')[1] = "gen" THEN <<ops'[Len(ops')].op>> ELSE <<>>,
   vop |-> [q \in Reps |-> [i \in 1..Len(ops') |-> IF AmbiguousL(ops', know'[q]) THEN "ANY" ELSE ExpValidate(ops', know'[q], i)]],
   vm  |-> [q \in Reps |-> ValidateMerge(st'[r], st'[q])],
   \* declarative: an error iff the two states carry the same marker with different values
   vmA |-> [q \in Reps |-> IF Kind = "lww" /\ st'[r].marker = st'[q].marker /\ st'[r].val # st'[q].val
                            THEN "ConflictingMarker" ELSE "Ok"],
   rs  |-> IF DumpReset /\ Kind \in {"gcounter", "pncounter"}
           THEN [i \in 1..Len(CUSeq) |-> <<CUSeq[i], ProjB(Reset(st'[r], CUSeq[i]))>>]
           ELSE <<>>]

Edge == MarkersOK' /\ (Who = 0 \/ PrintT(<<"E", ToJson(Line)>>))
=============================================================================
