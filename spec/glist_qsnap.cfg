\* GList: 2 replicas, 3 inserts, any delivery order, merges and one saved (stale) snapshot merged later
CONSTANTS
  Kind = "glist"
  NReps = 2
  MaxOps = 3
  Regime = "any"
  UseMerge = TRUE
  UseSnap = TRUE
  UseDup = FALSE
  DupElems = FALSE
  BeyondLen = 0
  ScriptName = "none"
  Reps <- MCReps
  Actors <- MCActors
  ActorOf <- MCActorOf
INIT Init
NEXT Next
VIEW View
ACTION_CONSTRAINT Edge
INVARIANTS TypeOK UniqueIds RefinesA EachOnce Converge ClockOK DupNoop ValidateOpOK MergeLaws Hybrid
PROPERTY IndexSemantics
CHECK_DEADLOCK FALSE
