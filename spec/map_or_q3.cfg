\* Map<K,Orswot> q3: 3 replicas, 1 key, 1 member, 3 API ops, per-actor FIFO delivery, merges
CONSTANTS
  DescName = "or"
  NReps = 3
  NKeys = 1
  NMembers = 1
  NVals = 1
  MaxOps = 3
  Regime = "fifo"
  UseMerge = TRUE
  UseSnap = FALSE
  UseDup = FALSE
  RmVia = FALSE
  DumpReset = FALSE
  ScriptName = "none"
  Reps <- MCReps
  Actors <- MCActors
  Keys <- MCKeys
  Members <- MCMembers
  MvVals <- MCVals
  ActorOf <- MCActorOf
  ValDesc <- MCDesc
INIT Init
NEXT Next
VIEW View
ACTION_CONSTRAINT Edge
INVARIANTS TypeOK KeysOK TopCtxOK FreshDot
CHECK_DEADLOCK FALSE
