//! Structure-preserving serde Serializer.
//!
//! `serde_json` refuses maps whose keys are not strings (the deferred tables of
//! Orswot/Map are keyed by vector clocks), so the harness obtains the complete
//! internal state of every CRDT through the type's own `Serialize` impl with
//! this serializer instead: maps become lists of (key, value) pairs, structs
//! become lists of (field name, value), enum variants are kept by name.
//! No source hook is needed in the library.

use serde::ser::{self, Serialize};
use std::fmt;

#[derive(Debug, Clone, PartialEq, Eq, PartialOrd, Ord)]
pub enum Tree {
    Unit,
    Bool(bool),
    I(i64),
    U(u64),
    Str(String),
    Bytes(Vec<u8>),
    Seq(Vec<Tree>),
    Map(Vec<(Tree, Tree)>),
    Struct(Vec<(String, Tree)>),
    Variant(String, Box<Tree>),
    None,
}

impl Tree {
    pub fn field(&self, name: &str) -> &Tree {
        match self {
            Tree::Struct(fs) => fs
                .iter()
                .find(|(n, _)| n == name)
                .map(|(_, t)| t)
                .unwrap_or_else(|| panic!("no field {} in {:?}", name, self)),
            _ => panic!("field {} of non-struct {:?}", name, self),
        }
    }
    pub fn seq(&self) -> &[Tree] {
        match self {
            Tree::Seq(v) => v,
            _ => panic!("not a seq: {:?}", self),
        }
    }
    pub fn map(&self) -> &[(Tree, Tree)] {
        match self {
            Tree::Map(v) => v,
            _ => panic!("not a map: {:?}", self),
        }
    }
    pub fn u(&self) -> u64 {
        match self {
            Tree::U(x) => *x,
            Tree::I(x) if *x >= 0 => *x as u64,
            _ => panic!("not an unsigned: {:?}", self),
        }
    }
    pub fn i(&self) -> i64 {
        match self {
            Tree::U(x) => *x as i64,
            Tree::I(x) => *x,
            _ => panic!("not an int: {:?}", self),
        }
    }
    pub fn variant(&self) -> (&str, &Tree) {
        match self {
            Tree::Variant(n, t) => (n.as_str(), t),
            _ => panic!("not a variant: {:?}", self),
        }
    }
}

#[derive(Debug)]
pub struct Error(String);
impl fmt::Display for Error {
    fn fmt(&self, f: &mut fmt::Formatter) -> fmt::Result {
        write!(f, "{}", self.0)
    }
}
impl std::error::Error for Error {}
impl ser::Error for Error {
    fn custom<T: fmt::Display>(msg: T) -> Self {
        Error(msg.to_string())
    }
}

pub fn to_tree<T: Serialize + ?Sized>(v: &T) -> Tree {
    v.serialize(Ser).expect("tree serialization cannot fail")
}

pub struct Ser;

pub struct SeqSer(Vec<Tree>, Option<String>);
pub struct MapSer(Vec<(Tree, Tree)>, Option<Tree>);
pub struct StructSer(Vec<(String, Tree)>, Option<String>);

impl ser::Serializer for Ser {
    type Ok = Tree;
    type Error = Error;
    type SerializeSeq = SeqSer;
    type SerializeTuple = SeqSer;
    type SerializeTupleStruct = SeqSer;
    type SerializeTupleVariant = SeqSer;
    type SerializeMap = MapSer;
    type SerializeStruct = StructSer;
    type SerializeStructVariant = StructSer;

    fn serialize_bool(self, v: bool) -> Result<Tree, Error> {
        Ok(Tree::Bool(v))
    }
    fn serialize_i8(self, v: i8) -> Result<Tree, Error> {
        Ok(Tree::I(v as i64))
    }
    fn serialize_i16(self, v: i16) -> Result<Tree, Error> {
        Ok(Tree::I(v as i64))
    }
    fn serialize_i32(self, v: i32) -> Result<Tree, Error> {
        Ok(Tree::I(v as i64))
    }
    fn serialize_i64(self, v: i64) -> Result<Tree, Error> {
        Ok(Tree::I(v))
    }
    fn serialize_u8(self, v: u8) -> Result<Tree, Error> {
        Ok(Tree::U(v as u64))
    }
    fn serialize_u16(self, v: u16) -> Result<Tree, Error> {
        Ok(Tree::U(v as u64))
    }
    fn serialize_u32(self, v: u32) -> Result<Tree, Error> {
        Ok(Tree::U(v as u64))
    }
    fn serialize_u64(self, v: u64) -> Result<Tree, Error> {
        Ok(Tree::U(v))
    }
    fn serialize_f32(self, v: f32) -> Result<Tree, Error> {
        Ok(Tree::Str(format!("{}", v)))
    }
    fn serialize_f64(self, v: f64) -> Result<Tree, Error> {
        Ok(Tree::Str(format!("{}", v)))
    }
    fn serialize_char(self, v: char) -> Result<Tree, Error> {
        Ok(Tree::Str(v.to_string()))
    }
    fn serialize_str(self, v: &str) -> Result<Tree, Error> {
        Ok(Tree::Str(v.to_string()))
    }
    fn serialize_bytes(self, v: &[u8]) -> Result<Tree, Error> {
        Ok(Tree::Bytes(v.to_vec()))
    }
    fn serialize_none(self) -> Result<Tree, Error> {
        Ok(Tree::None)
    }
    fn serialize_some<T: ?Sized + Serialize>(self, value: &T) -> Result<Tree, Error> {
        value.serialize(Ser)
    }
    fn serialize_unit(self) -> Result<Tree, Error> {
        Ok(Tree::Unit)
    }
    fn serialize_unit_struct(self, _name: &'static str) -> Result<Tree, Error> {
        Ok(Tree::Unit)
    }
    fn serialize_unit_variant(
        self,
        _name: &'static str,
        _idx: u32,
        variant: &'static str,
    ) -> Result<Tree, Error> {
        Ok(Tree::Variant(variant.to_string(), Box::new(Tree::Unit)))
    }
    fn serialize_newtype_struct<T: ?Sized + Serialize>(
        self,
        _name: &'static str,
        value: &T,
    ) -> Result<Tree, Error> {
        value.serialize(Ser)
    }
    fn serialize_newtype_variant<T: ?Sized + Serialize>(
        self,
        _name: &'static str,
        _idx: u32,
        variant: &'static str,
        value: &T,
    ) -> Result<Tree, Error> {
        Ok(Tree::Variant(
            variant.to_string(),
            Box::new(value.serialize(Ser)?),
        ))
    }
    fn serialize_seq(self, _len: Option<usize>) -> Result<SeqSer, Error> {
        Ok(SeqSer(vec![], None))
    }
    fn serialize_tuple(self, _len: usize) -> Result<SeqSer, Error> {
        Ok(SeqSer(vec![], None))
    }
    fn serialize_tuple_struct(self, _name: &'static str, _len: usize) -> Result<SeqSer, Error> {
        Ok(SeqSer(vec![], None))
    }
    fn serialize_tuple_variant(
        self,
        _name: &'static str,
        _idx: u32,
        variant: &'static str,
        _len: usize,
    ) -> Result<SeqSer, Error> {
        Ok(SeqSer(vec![], Some(variant.to_string())))
    }
    fn serialize_map(self, _len: Option<usize>) -> Result<MapSer, Error> {
        Ok(MapSer(vec![], None))
    }
    fn serialize_struct(self, _name: &'static str, _len: usize) -> Result<StructSer, Error> {
        Ok(StructSer(vec![], None))
    }
    fn serialize_struct_variant(
        self,
        _name: &'static str,
        _idx: u32,
        variant: &'static str,
        _len: usize,
    ) -> Result<StructSer, Error> {
        Ok(StructSer(vec![], Some(variant.to_string())))
    }
}

impl SeqSer {
    fn finish(self) -> Tree {
        match self.1 {
            Some(v) => Tree::Variant(v, Box::new(Tree::Seq(self.0))),
            None => Tree::Seq(self.0),
        }
    }
}
impl ser::SerializeSeq for SeqSer {
    type Ok = Tree;
    type Error = Error;
    fn serialize_element<T: ?Sized + Serialize>(&mut self, value: &T) -> Result<(), Error> {
        self.0.push(value.serialize(Ser)?);
        Ok(())
    }
    fn end(self) -> Result<Tree, Error> {
        Ok(self.finish())
    }
}
impl ser::SerializeTuple for SeqSer {
    type Ok = Tree;
    type Error = Error;
    fn serialize_element<T: ?Sized + Serialize>(&mut self, value: &T) -> Result<(), Error> {
        self.0.push(value.serialize(Ser)?);
        Ok(())
    }
    fn end(self) -> Result<Tree, Error> {
        Ok(self.finish())
    }
}
impl ser::SerializeTupleStruct for SeqSer {
    type Ok = Tree;
    type Error = Error;
    fn serialize_field<T: ?Sized + Serialize>(&mut self, value: &T) -> Result<(), Error> {
        self.0.push(value.serialize(Ser)?);
        Ok(())
    }
    fn end(self) -> Result<Tree, Error> {
        Ok(self.finish())
    }
}
impl ser::SerializeTupleVariant for SeqSer {
    type Ok = Tree;
    type Error = Error;
    fn serialize_field<T: ?Sized + Serialize>(&mut self, value: &T) -> Result<(), Error> {
        self.0.push(value.serialize(Ser)?);
        Ok(())
    }
    fn end(self) -> Result<Tree, Error> {
        Ok(self.finish())
    }
}
impl ser::SerializeMap for MapSer {
    type Ok = Tree;
    type Error = Error;
    fn serialize_key<T: ?Sized + Serialize>(&mut self, key: &T) -> Result<(), Error> {
        self.1 = Some(key.serialize(Ser)?);
        Ok(())
    }
    fn serialize_value<T: ?Sized + Serialize>(&mut self, value: &T) -> Result<(), Error> {
        let k = self.1.take().expect("value before key");
        self.0.push((k, value.serialize(Ser)?));
        Ok(())
    }
    fn end(self) -> Result<Tree, Error> {
        Ok(Tree::Map(self.0))
    }
}
impl StructSer {
    fn finish(self) -> Tree {
        match self.1 {
            Some(v) => Tree::Variant(v, Box::new(Tree::Struct(self.0))),
            None => Tree::Struct(self.0),
        }
    }
}
impl ser::SerializeStruct for StructSer {
    type Ok = Tree;
    type Error = Error;
    fn serialize_field<T: ?Sized + Serialize>(
        &mut self,
        key: &'static str,
        value: &T,
    ) -> Result<(), Error> {
        self.0.push((key.to_string(), value.serialize(Ser)?));
        Ok(())
    }
    fn end(self) -> Result<Tree, Error> {
        Ok(self.finish())
    }
}
impl ser::SerializeStructVariant for StructSer {
    type Ok = Tree;
    type Error = Error;
    fn serialize_field<T: ?Sized + Serialize>(
        &mut self,
        key: &'static str,
        value: &T,
    ) -> Result<(), Error> {
        self.0.push((key.to_string(), value.serialize(Ser)?));
        Ok(())
    }
    fn end(self) -> Result<Tree, Error> {
        Ok(self.finish())
    }
}
