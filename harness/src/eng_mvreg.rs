//! MVReg<u8, u8> bound to MVReg.tla / SysMVReg.tla.

use crate::core::*;
use crate::eng_orswot::{clock_json, vclock_of};
use crate::tree::{to_tree, Tree};
use crdts::mvreg::{MVReg, Op};
use crdts::{CmRDT, CvRDT, ResetRemove};
use serde_json::{json, Value};

pub struct MVRegEng;
pub type S = MVReg<u8, u8>;
pub type O = Op<u8, u8>;

pub fn mvreg_proj_tree(t: &Tree, d: &Dims) -> Value {
    let mut z = false;
    let mut vals: Vec<Value> = t
        .seq()
        .iter()
        .map(|p| {
            let p = p.seq();
            json!([clock_arr(&p[0], d.n, &mut z), p[1].u()])
        })
        .collect();
    vals.sort_by(cmp_json);
    let mut o = json!({"vals": vals});
    if z {
        o["zero_entry"] = json!(true);
    }
    o
}

pub fn canon_mvreg_b(b: &Value) -> Value {
    let mut o = b.clone();
    if let Some(v) = o.get_mut("vals") {
        sort_array(v);
    }
    o
}

pub fn mvreg_reads(s: &S, d: &Dims) -> Value {
    mvreg_reads_opt(s, d, true)
}

pub fn mvreg_reads_opt(s: &S, d: &Dims, full: bool) -> Value {
    let r = s.read();
    let mut val: Vec<u64> = r.val.iter().map(|x| *x as u64).collect();
    val.sort();
    let rc = s.read_ctx();
    let mut derived = vec![];
    for a in 1..=(if full { d.n } else { 0 }) {
        let c1 = s.read().derive_add_ctx(a as u8);
        let c2 = s.read_ctx().derive_add_ctx(a as u8);
        derived.push(json!({"read": [c1.dot.actor, c1.dot.counter, clock_json(&c1.clock, d.n)],
                            "read_ctx": [c2.dot.actor, c2.dot.counter, clock_json(&c2.clock, d.n)]}));
    }
    json!({
        "read": {"val": val, "add": clock_json(&r.add_clock, d.n), "rm": clock_json(&r.rm_clock, d.n)},
        "read_ctx": {"add": clock_json(&rc.add_clock, d.n), "rm": clock_json(&rc.rm_clock, d.n)},
        "derived_add": derived,
    })
}

pub fn mvreg_reads_from(vals_bag: &Value, clock: &Value) -> Value {
    // vals_bag: [[value, multiplicity], ...]
    let mut val: Vec<u64> = vec![];
    for p in vals_bag.as_array().unwrap() {
        for _ in 0..p[1].as_u64().unwrap() {
            val.push(p[0].as_u64().unwrap());
        }
    }
    val.sort();
    let n = clock.as_array().unwrap().len();
    let derived: Vec<Value> = (1..=n).map(|a| { let e = crate::eng_orswot::exp_derived(clock, a); json!({"read": e, "read_ctx": e}) }).collect();
    json!({
        "read": {"val": val, "add": clock, "rm": clock},
        "read_ctx": {"add": clock, "rm": clock},
        "derived_add": derived,
    })
}

pub fn mvreg_canon_from_pairs(pairs: &Value) -> Value {
    let mut vals: Vec<Value> = vec![];
    for p in pairs.as_array().unwrap() {
        for _ in 0..p[2].as_u64().unwrap() {
            vals.push(json!([p[0], p[1]]));
        }
    }
    vals.sort_by(cmp_json);
    json!({"vals": vals})
}

pub fn mvreg_op_proj(o: &O, d: &Dims) -> Value {
    match o {
        Op::Put { clock, val } => json!({"clock": clock_json(clock, d.n), "val": *val as u64}),
    }
}

impl Engine for MVRegEng {
    type S = S;
    type O = O;
    const NAME: &'static str = "mvreg";
    const HAS_RESET: bool = true;
    const HAS_CTX: bool = true;

    fn new_state() -> S {
        MVReg::new()
    }
    fn gen(s: &S, actor: u8, cmd: &Value) -> O {
        let v = cmd["v"].as_u64().unwrap() as u8;
        match cmd["c"].as_str().unwrap() {
            // read() and read_ctx() carry the same context; alternate
            "write" => {
                if (v as usize + actor as usize) % 2 == 0 {
                    s.write(v, s.read().derive_add_ctx(actor))
                } else {
                    s.write(v, s.read_ctx().derive_add_ctx(actor))
                }
            }
            "write_via_ctx" => s.write(v, s.read_ctx().derive_add_ctx(actor)),
            c => panic!("unknown mvreg command {}", c),
        }
    }
    fn apply(s: &mut S, op: O) {
        s.apply(op)
    }
    fn merge(s: &mut S, o: S) {
        s.merge(o)
    }
    fn proj(s: &S, d: &Dims) -> Value {
        mvreg_proj_tree(&to_tree(s), d)
    }
    fn canon_b(b: &Value) -> Value {
        canon_mvreg_b(b)
    }
    fn reads(s: &S, d: &Dims) -> Value {
        mvreg_reads(s, d)
    }
    fn reads_light(s: &S, d: &Dims) -> Value {
        mvreg_reads_opt(s, d, false)
    }
    fn exp_reads(a: &Value, _d: &Dims) -> Value {
        mvreg_reads_from(&a["vals"], &a["clock"])
    }
    fn canon_from_a(a: &Value, _d: &Dims) -> Option<Value> {
        Some(mvreg_canon_from_pairs(&a["pairs"]))
    }
    fn op_proj(o: &O, d: &Dims) -> Value {
        mvreg_op_proj(o, d)
    }
    fn canon_op(o: &Value) -> Value {
        json!({"clock": o["clock"], "val": o["val"]})
    }
    fn validate_op(s: &S, o: &O) -> String {
        match s.validate_op(o) {
            Ok(()) => "Ok".into(),
            Err(_) => "Err".into(),
        }
    }
    fn validate_merge(a: &S, b: &S) -> String {
        match a.validate_merge(b) {
            Ok(()) => "Ok".into(),
            Err(_) => "Err".into(),
        }
    }
    fn reset(s: &mut S, c: &[u64]) {
        s.reset_remove(&vclock_of(c))
    }
    fn eq(a: &S, b: &S) -> bool {
        a == b
    }
    fn ser_state(s: &S) -> Result<String, String> {
        serde_json::to_string(s).map_err(|e| e.to_string())
    }
    fn de_state(t: &str) -> Result<S, String> {
        serde_json::from_str(t).map_err(|e| e.to_string())
    }
    fn ser_op(o: &O) -> Result<String, String> {
        serde_json::to_string(o).map_err(|e| e.to_string())
    }
    fn de_op(t: &str) -> Result<O, String> {
        serde_json::from_str(t).map_err(|e| e.to_string())
    }
    fn semantic_prop() -> &'static str {
        "C06"
    }
    fn gen_op_props() -> Vec<&'static str> {
        vec!["C07", "C06"]
    }
    fn is_ctx_path(path: &str) -> bool {
        path.contains(".add") || path.contains(".rm") || path.starts_with("derived")
    }
}

impl crate::drive::Driveable for MVRegEng {
    fn random_cmd(_s: &S, _r: usize, rng: &mut rand::rngs::StdRng, d: &Dims) -> Option<Value> {
        use rand::Rng;
        Some(json!({"c": "write", "v": rng.gen_range(1..=d.m.max(1)) as u64}))
    }
}
