//! Orswot<u8, u8> bound to Orswot.tla / SysOrswot.tla.

use crate::core::*;
use crate::tree::{to_tree, Tree};
use crdts::orswot::{Op, Orswot};
use crdts::{CmRDT, CvRDT, Dot, ResetRemove, VClock};
use serde_json::{json, Value};

pub struct OrswotEng;

pub type S = Orswot<u8, u8>;
pub type O = Op<u8, u8>;

pub fn vclock_of(c: &[u64]) -> VClock<u8> {
    let mut v = VClock::new();
    for (i, n) in c.iter().enumerate() {
        if *n > 0 {
            v.apply(Dot::new((i + 1) as u8, *n));
        }
    }
    v
}

pub fn clock_json(c: &VClock<u8>, n: usize) -> Value {
    let mut z = false;
    clock_arr(&to_tree(c), n, &mut z)
}

fn members_of(cmd: &Value) -> Vec<u8> {
    cmd["ms"].as_array().map(|a| a.iter().map(|x| x.as_u64().unwrap() as u8).collect()).unwrap_or_default()
}

pub fn orswot_proj_tree(t: &Tree, d: &Dims) -> Value {
    let mut z = false;
    let clock = clock_arr(t.field("clock"), d.n, &mut z);
    let mut entries = vec![json!(vec![0u64; d.n]); d.m];
    for (m, c) in t.field("entries").map() {
        let mi = m.u() as usize;
        let cj = clock_arr(c, d.n, &mut z);
        if mi >= 1 && mi <= d.m {
            // an entry with an empty clock is residue the model cannot express as "absent"
            if cj.as_array().unwrap().iter().all(|x| x.as_u64() == Some(0)) {
                // (rendered as a clock of -1s: the same JSON/TLA+ type as a clock, equal to no clock of the model)
                entries[mi - 1] = json!(vec![-1i64; d.n]);
            } else {
                entries[mi - 1] = cj;
            }
        } else {
            panic!("member {} outside 1..{}", mi, d.m);
        }
    }
    let mut deferred: Vec<Value> = t
        .field("deferred")
        .map()
        .iter()
        .map(|(c, ms)| {
            let mut v: Vec<u64> = ms.seq().iter().map(|x| x.u()).collect();
            v.sort();
            json!([clock_arr(c, d.n, &mut z), v])
        })
        .collect();
    deferred.sort_by(cmp_json);
    let mut o = json!({"clock": clock, "entries": entries, "deferred": deferred});
    if z {
        o["zero_entry"] = json!(true);
    }
    o
}

pub fn canon_orswot_b(b: &Value) -> Value {
    let mut o = b.clone();
    if let Some(def) = o.get_mut("deferred") {
        if let Some(a) = def.as_array_mut() {
            for p in a.iter_mut() {
                sort_array(&mut p[1]);
            }
        }
        sort_array(def);
    }
    o
}

pub fn orswot_reads(s: &S, d: &Dims) -> Value {
    orswot_reads_opt(s, d, true)
}

pub fn orswot_reads_opt(s: &S, d: &Dims, full: bool) -> Value {
    let n = d.n;
    let r = s.read();
    let mut val: Vec<u64> = r.val.iter().map(|x| *x as u64).collect();
    val.sort();
    let rc = s.read_ctx();
    let mut contains = vec![];
    for m in 1..=d.m {
        let c = s.contains(&(m as u8));
        contains.push(json!({"val": c.val, "add": clock_json(&c.add_clock, n), "rm": clock_json(&c.rm_clock, n)}));
    }
    let mut iter: Vec<Value> = s
        .iter()
        .map(|c| json!([*c.val as u64, clock_json(&c.add_clock, n), clock_json(&c.rm_clock, n)]))
        .collect();
    iter.sort_by(cmp_json);
    // the contexts DERIVED from the reads (ctx.rs): for every actor, from a whole-set read and from a member read
    let mut derived = vec![];
    for a in 1..=(if full { n } else { 0 }) {
        let actor = a as u8;
        let c1 = s.read_ctx().derive_add_ctx(actor);
        let c2 = s.contains(&1).derive_add_ctx(actor);
        let c3 = s.read().derive_add_ctx(actor);
        derived.push(json!({
            "read_ctx": [c1.dot.actor, c1.dot.counter, clock_json(&c1.clock, n)],
            "contains": [c2.dot.actor, c2.dot.counter, clock_json(&c2.clock, n)],
            "read": [c3.dot.actor, c3.dot.counter, clock_json(&c3.clock, n)],
        }));
    }
    let rmd: Vec<Value> = (1..=d.m).map(|m| clock_json(&s.contains(&(m as u8)).derive_rm_ctx().clock, n)).collect();
    json!({
        "read": {"val": val, "add": clock_json(&r.add_clock, n), "rm": clock_json(&r.rm_clock, n)},
        "read_ctx": {"add": clock_json(&rc.add_clock, n), "rm": clock_json(&rc.rm_clock, n)},
        "contains": contains,
        "iter": iter,
        "clock": clock_json(&s.clock(), n),
        "derived_add": derived,
        "derived_rm": rmd,
    })
}

/// what derive_add_ctx(actor) must give on a read whose add context is `clock`: the actor's next dot and the
/// clock with that dot applied
pub fn exp_derived(clock: &Value, a: usize) -> Value {
    let mut c: Vec<u64> = clock.as_array().unwrap().iter().map(|x| x.as_u64().unwrap()).collect();
    c[a - 1] += 1;
    json!([a as u64, c[a - 1], c])
}

pub fn orswot_exp_reads(a: &Value, d: &Dims) -> Value {
    let clock = a["clock"].clone();
    let mut val: Vec<u64> = a["val"].as_array().unwrap().iter().map(|x| x.as_u64().unwrap()).collect();
    val.sort();
    let wit = a["wit"].as_array().unwrap();
    let mut contains = vec![];
    let mut iter = vec![];
    for m in 1..=d.m {
        let present = val.contains(&(m as u64));
        contains.push(json!({"val": present, "add": clock, "rm": wit[m - 1]}));
        if present {
            iter.push(json!([m as u64, clock, wit[m - 1]]));
        }
    }
    iter.sort_by(cmp_json);
    let n = clock.as_array().unwrap().len();
    let derived: Vec<Value> = (1..=n).map(|a| { let e = exp_derived(&clock, a); json!({"read_ctx": e, "contains": e, "read": e}) }).collect();
    let rmd: Vec<Value> = (1..=d.m).map(|m| wit[m - 1].clone()).collect();
    json!({
        "read": {"val": val, "add": clock, "rm": clock},
        "read_ctx": {"add": clock, "rm": clock},
        "contains": contains,
        "iter": iter,
        "clock": clock,
        "derived_add": derived,
        "derived_rm": rmd,
    })
}

pub fn orswot_op_proj(o: &O, d: &Dims) -> Value {
    match o {
        Op::Add { dot, members } => {
            let mut ms: Vec<u64> = members.iter().map(|x| *x as u64).collect();
            ms.sort();
            json!({"kind": "add", "actor": dot.actor, "counter": dot.counter, "members": ms})
        }
        Op::Rm { clock, members } => {
            let mut ms: Vec<u64> = members.iter().map(|x| *x as u64).collect();
            ms.sort();
            json!({"kind": "rm", "clock": clock_json(clock, d.n), "members": ms})
        }
    }
}

pub fn orswot_gen(s: &S, actor: u8, cmd: &Value) -> O {
    match cmd["c"].as_str().unwrap() {
        "add" => {
            // every read entry point carries the set clock as add context (layer A: ExpClock); the harness
            // rotates through them so that each derive_add_ctx source is exercised
            let m = cmd["m"].as_u64().unwrap() as u8;
            let ctx = match (m as usize + actor as usize + s.clock().get(&actor) as usize) % 3 {
                0 => s.read_ctx().derive_add_ctx(actor),
                1 => s.contains(&m).derive_add_ctx(actor),
                _ => s.read().derive_add_ctx(actor),
            };
            s.add(m, ctx)
        }
        "addall" => {
            let ctx = if actor % 2 == 0 { s.read().derive_add_ctx(actor) } else { s.read_ctx().derive_add_ctx(actor) };
            s.add_all(members_of(cmd), ctx)
        }
        "rm" => {
            let m = cmd["m"].as_u64().unwrap() as u8;
            let ctx = s.contains(&m).derive_rm_ctx();
            s.rm(m, ctx)
        }
        "rmall" => {
            let ctx = s.read().derive_rm_ctx();
            s.rm_all(members_of(cmd), ctx)
        }
        c => panic!("unknown orswot command {}", c),
    }
}

impl Engine for OrswotEng {
    type S = S;
    type O = O;
    const NAME: &'static str = "orswot";
    const HAS_RESET: bool = true;
    const HAS_CTX: bool = true;

    fn new_state() -> S {
        Orswot::new()
    }
    fn gen(s: &S, actor: u8, cmd: &Value) -> O {
        orswot_gen(s, actor, cmd)
    }
    fn apply(s: &mut S, op: O) {
        s.apply(op)
    }
    fn merge(s: &mut S, o: S) {
        s.merge(o)
    }
    fn proj(s: &S, d: &Dims) -> Value {
        orswot_proj_tree(&to_tree(s), d)
    }
    fn canon_b(b: &Value) -> Value {
        canon_orswot_b(b)
    }
    fn reads(s: &S, d: &Dims) -> Value {
        orswot_reads(s, d)
    }
    fn reads_light(s: &S, d: &Dims) -> Value {
        orswot_reads_opt(s, d, false)
    }
    fn exp_reads(a: &Value, d: &Dims) -> Value {
        orswot_exp_reads(a, d)
    }
    fn canon_from_a(a: &Value, _d: &Dims) -> Option<Value> {
        Some(canon_orswot_b(&json!({"clock": a["clock"], "entries": a["wit"], "deferred": a["pend"]})))
    }
    fn a_no_pending(a: &Value) -> bool {
        a["pend"].as_array().map(|x| x.is_empty()).unwrap_or(true)
    }
    fn pending_from_a(a: &Value) -> Option<Value> {
        Some(canon_orswot_b(&json!({"deferred": a["pend"]}))["deferred"].clone())
    }
    fn pending_of_proj(p: &Value) -> Option<Value> {
        Some(p["deferred"].clone())
    }
    fn op_proj(o: &O, d: &Dims) -> Value {
        orswot_op_proj(o, d)
    }
    fn canon_op(o: &Value) -> Value {
        let mut v = o.clone();
        if let Some(ms) = v.get_mut("members") {
            sort_array(ms);
        }
        v
    }
    fn validate_op(s: &S, o: &O) -> String {
        match s.validate_op(o) {
            Ok(()) => "Ok".into(),
            Err(_) => "DotRange".into(),
        }
    }
    fn validate_merge(a: &S, b: &S) -> String {
        match a.validate_merge(b) {
            Ok(()) => "Ok".into(),
            Err(_) => "DoubleSpentDot".into(),
        }
    }
    fn reset(s: &mut S, c: &[u64]) {
        s.reset_remove(&vclock_of(c))
    }
    fn eq(a: &S, b: &S) -> bool {
        a == b
    }
    fn ser_state(s: &S) -> Result<String, String> {
        serde_json::to_string(s).map_err(|e| e.to_string())
    }
    fn de_state(t: &str) -> Result<S, String> {
        serde_json::from_str(t).map_err(|e| e.to_string())
    }
    fn ser_op(o: &O) -> Result<String, String> {
        serde_json::to_string(o).map_err(|e| e.to_string())
    }
    fn de_op(t: &str) -> Result<O, String> {
        serde_json::from_str(t).map_err(|e| e.to_string())
    }
    fn has_pending(s: &S) -> bool {
        !to_tree(s).field("deferred").map().is_empty()
    }
    fn semantic_prop() -> &'static str {
        "C04"
    }
    fn sigs(sys: &Sys<Self>) -> Vec<String> {
        let mut v = vec![];
        // KF-17a: some add in the log carries two or more members (add_all)
        if sys.ops.iter().any(|o| matches!(&o.op, Op::Add { members, .. } if members.len() >= 2)) {
            v.push("addall2".to_string());
        }
        v
    }
    fn is_ctx_path(path: &str) -> bool {
        if path.starts_with("iter") {
            // iter[i][1] is the member, iter[i][2..] its contexts; a length mismatch is contents
            return path.contains("][2]") || path.contains("][3]");
        }
        path.contains(".add") || path.contains(".rm") || path.starts_with("clock") || path.starts_with("read_ctx") || path.starts_with("derived")
    }
}

impl crate::drive::Driveable for OrswotEng {
    fn random_cmd(s: &S, _r: usize, rng: &mut rand::rngs::StdRng, d: &Dims) -> Option<Value> {
        use rand::Rng;
        let m = rng.gen_range(1..=d.m) as u64;
        let mut present: Vec<u64> = s.read().val.iter().map(|x| *x as u64).collect();
        present.sort(); // HashSet order must not reach the choice: the same seed gives the same histories
        let roll: f64 = rng.gen();
        Some(if roll < 0.45 {
            json!({"c": "add", "m": m, "ms": []})
        } else if roll < 0.55 {
            let m2 = rng.gen_range(1..=d.m) as u64;
            let mut ms = vec![m, m2];
            ms.sort();
            ms.dedup();
            if ms.len() < 2 {
                json!({"c": "add", "m": m, "ms": []})
            } else {
                json!({"c": "addall", "m": 0, "ms": ms})
            }
        } else if roll < 0.9 {
            if present.is_empty() {
                json!({"c": "rm", "m": m, "ms": []})
            } else {
                json!({"c": "rm", "m": present[rng.gen_range(0..present.len())], "ms": []})
            }
        } else {
            json!({"c": "rmall", "m": 0, "ms": [m]})
        })
    }
}
