//! GCounter, PNCounter, LWWReg, MaxReg, MinReg, GSet bound to SysSimple.tla.
//! One engine; the kind is selected by `--kind` (a process-wide setting).

use crate::core::*;
use crate::eng_orswot::vclock_of;
use crate::tree::{to_tree, Tree};
use crdts::pncounter::Dir;
use crdts::{CmRDT, CvRDT, Dot, GCounter, GSet, LWWReg, MaxReg, MinReg, PNCounter, ResetRemove};
use num::ToPrimitive;
use serde_json::{json, Value};
use std::sync::atomic::{AtomicU8, Ordering};

pub static KIND: AtomicU8 = AtomicU8::new(0);
pub fn set_kind(k: &str) {
    let v = match k {
        "gcounter" => 1,
        "pncounter" => 2,
        "lww" => 3,
        "max" => 4,
        "min" => 5,
        "gset" => 6,
        _ => panic!("unknown simple kind {}", k),
    };
    KIND.store(v, Ordering::SeqCst);
}

#[derive(Clone, Debug, PartialEq)]
pub enum S {
    G(GCounter<u8>),
    P(PNCounter<u8>),
    L(LWWReg<i64, u64>),
    Mx(MaxReg<i64>),
    Mn(MinReg<i64>),
    St(GSet<i64>),
}

#[derive(Clone, Debug)]
pub enum O {
    G(Dot<u8>),
    P(crdts::pncounter::Op<u8>),
    L(LWWReg<i64, u64>),
    V(i64),
}

pub struct SimpleEng;

fn clock_of_tree(t: &Tree, n: usize) -> Value {
    let mut z = false;
    clock_arr(t, n, &mut z)
}

impl Engine for SimpleEng {
    type S = S;
    type O = O;
    const NAME: &'static str = "simple";
    const HAS_RESET: bool = true;

    fn kf_name() -> String {
        "simple".into()
    }
    fn new_state() -> S {
        match KIND.load(Ordering::SeqCst) {
            1 => S::G(GCounter::new()),
            2 => S::P(PNCounter::new()),
            3 => S::L(LWWReg::default()),
            4 => S::Mx(MaxReg::default()),
            5 => S::Mn(MinReg::default()),
            6 => S::St(GSet::new()),
            _ => panic!("simple kind not set"),
        }
    }
    fn gen(s: &S, actor: u8, cmd: &Value) -> O {
        let c = cmd["c"].as_str().unwrap();
        match s {
            S::G(g) => match c {
                "inc" => O::G(g.inc(actor)),
                "inc_many" => O::G(g.inc_many(actor, cmd["k"].as_u64().unwrap())),
                _ => panic!("gcounter cmd {}", c),
            },
            S::P(p) => match c {
                "inc" => O::P(p.inc(actor)),
                "dec" => O::P(p.dec(actor)),
                "inc_many" => O::P(p.inc_many(actor, cmd["k"].as_u64().unwrap())),
                "dec_many" => O::P(p.dec_many(actor, cmd["k"].as_u64().unwrap())),
                _ => panic!("pncounter cmd {}", c),
            },
            // LWWReg has no op constructor: the op is the (val, marker) pair itself
            S::L(_) => O::L(LWWReg::new(cmd["v"].as_i64().unwrap(), cmd["mk"].as_u64().unwrap())),
            S::Mx(m) => O::V(m.write(cmd["v"].as_i64().unwrap())),
            S::Mn(m) => O::V(m.write(cmd["v"].as_i64().unwrap())),
            S::St(_) => O::V(cmd["v"].as_i64().unwrap()),
        }
    }
    fn apply(s: &mut S, op: O) {
        match (s, op) {
            (S::G(g), O::G(d)) => g.apply(d),
            (S::P(p), O::P(o)) => p.apply(o),
            (S::L(l), O::L(o)) => l.apply(o),
            (S::Mx(m), O::V(v)) => m.apply(v),
            (S::Mn(m), O::V(v)) => m.apply(v),
            (S::St(g), O::V(v)) => g.apply(v),
            _ => panic!("kind mismatch"),
        }
    }
    fn merge(s: &mut S, o: S) {
        match (s, o) {
            (S::G(a), S::G(b)) => a.merge(b),
            (S::P(a), S::P(b)) => a.merge(b),
            (S::L(a), S::L(b)) => a.merge(b),
            (S::Mx(a), S::Mx(b)) => a.merge(b),
            (S::Mn(a), S::Mn(b)) => a.merge(b),
            (S::St(a), S::St(b)) => a.merge(b),
            _ => panic!("kind mismatch"),
        }
    }
    fn proj(s: &S, d: &Dims) -> Value {
        match s {
            S::G(g) => json!({"clock": clock_of_tree(&to_tree(g), d.n)}),
            S::P(p) => {
                let t = to_tree(p);
                json!({"p": clock_of_tree(t.field("p"), d.n), "n": clock_of_tree(t.field("n"), d.n)})
            }
            S::L(l) => json!({"val": l.val, "marker": l.marker}),
            S::Mx(m) => json!({"val": m.val}),
            S::Mn(m) => json!({"val": m.val}),
            S::St(g) => {
                let v: Vec<i64> = g.read().into_iter().collect();
                json!({"set": v})
            }
        }
    }
    fn canon_b(b: &Value) -> Value {
        let mut o = b.clone();
        if let Some(s) = o.get_mut("set") {
            sort_array(s);
        }
        o
    }
    fn reads(s: &S, _d: &Dims) -> Value {
        match s {
            S::G(g) => json!({"read": g.read().to_u64().unwrap()}),
            S::P(p) => json!({"read": p.read().to_i64().unwrap()}),
            S::L(l) => json!({"read": [l.val, l.marker]}),
            S::Mx(m) => json!({"read": *m.read()}),
            S::Mn(m) => json!({"read": *m.read()}),
            S::St(g) => {
                let v: Vec<i64> = g.read().into_iter().collect();
                let all: Vec<bool> = v.iter().map(|x| g.contains(x)).collect();
                json!({"read": v, "contains_all": all.iter().all(|b| *b), "contains_absent": g.contains(&77)})
            }
        }
    }
    fn exp_reads(a: &Value, _d: &Dims) -> Value {
        let mut r = a["read"].clone();
        if KIND.load(Ordering::SeqCst) == 6 {
            sort_array(&mut r);
            return json!({"read": r, "contains_all": true, "contains_absent": false});
        }
        if a["ambiguous"] == json!(true) {
            // a marker was reused with different values (misuse): the read is undetermined
            return json!({"read": "ANY"});
        }
        json!({"read": r})
    }
    fn canon_from_a(a: &Value, _d: &Dims) -> Option<Value> {
        if a["ambiguous"] == json!(true) {
            None
        } else {
            Some(Self::canon_b(&a["canon"]))
        }
    }
    fn op_proj(o: &O, _d: &Dims) -> Value {
        match o {
            O::G(d) => json!({"actor": d.actor, "counter": d.counter}),
            O::P(o) => json!({"actor": o.dot.actor, "counter": o.dot.counter, "dir": match o.dir { Dir::Pos => "pos", Dir::Neg => "neg" }}),
            O::L(l) => json!({"val": l.val, "marker": l.marker}),
            O::V(v) => json!({"val": v}),
        }
    }
    fn canon_op(o: &Value) -> Value {
        o.clone()
    }
    fn validate_op(s: &S, o: &O) -> String {
        match (s, o) {
            (S::G(g), O::G(d)) => g.validate_op(d).map(|_| "Ok".to_string()).unwrap_or("Err".into()),
            (S::P(p), O::P(o)) => p.validate_op(o).map(|_| "Ok".to_string()).unwrap_or("Err".into()),
            (S::L(l), O::L(o)) => l.validate_op(o).map(|_| "Ok".to_string()).unwrap_or("ConflictingMarker".into()),
            (S::Mx(m), O::V(v)) => m.validate_op(v).map(|_| "Ok".to_string()).unwrap_or("Err".into()),
            (S::Mn(m), O::V(v)) => m.validate_op(v).map(|_| "Ok".to_string()).unwrap_or("Err".into()),
            (S::St(g), O::V(v)) => g.validate_op(v).map(|_| "Ok".to_string()).unwrap_or("Err".into()),
            _ => panic!("kind mismatch"),
        }
    }
    fn validate_merge(a: &S, b: &S) -> String {
        match (a, b) {
            (S::G(x), S::G(y)) => x.validate_merge(y).map(|_| "Ok".to_string()).unwrap_or("Err".into()),
            (S::P(x), S::P(y)) => x.validate_merge(y).map(|_| "Ok".to_string()).unwrap_or("Err".into()),
            (S::L(x), S::L(y)) => x.validate_merge(y).map(|_| "Ok".to_string()).unwrap_or("ConflictingMarker".into()),
            (S::Mx(x), S::Mx(y)) => x.validate_merge(y).map(|_| "Ok".to_string()).unwrap_or("Err".into()),
            (S::Mn(x), S::Mn(y)) => x.validate_merge(y).map(|_| "Ok".to_string()).unwrap_or("Err".into()),
            (S::St(x), S::St(y)) => x.validate_merge(y).map(|_| "Ok".to_string()).unwrap_or("Err".into()),
            _ => panic!("kind mismatch"),
        }
    }
    fn reset(s: &mut S, c: &[u64]) {
        match s {
            S::G(g) => g.reset_remove(&vclock_of(c)),
            S::P(p) => p.reset_remove(&vclock_of(c)),
            _ => {}
        }
    }
    fn eq(a: &S, b: &S) -> bool {
        a == b
    }
    fn ser_state(s: &S) -> Result<String, String> {
        match s {
            S::G(x) => serde_json::to_string(x),
            S::P(x) => serde_json::to_string(x),
            S::L(x) => serde_json::to_string(x),
            S::Mx(x) => serde_json::to_string(x),
            S::Mn(x) => serde_json::to_string(x),
            S::St(x) => serde_json::to_string(x),
        }
        .map_err(|e| e.to_string())
    }
    fn de_state(t: &str) -> Result<S, String> {
        match KIND.load(Ordering::SeqCst) {
            1 => serde_json::from_str(t).map(S::G),
            2 => serde_json::from_str(t).map(S::P),
            3 => serde_json::from_str(t).map(S::L),
            4 => serde_json::from_str(t).map(S::Mx),
            5 => serde_json::from_str(t).map(S::Mn),
            _ => serde_json::from_str(t).map(S::St),
        }
        .map_err(|e| e.to_string())
    }
    fn ser_op(o: &O) -> Result<String, String> {
        match o {
            O::G(x) => serde_json::to_string(x),
            O::P(x) => serde_json::to_string(x),
            O::L(x) => serde_json::to_string(x),
            O::V(x) => serde_json::to_string(x),
        }
        .map_err(|e| e.to_string())
    }
    fn de_op(t: &str) -> Result<O, String> {
        match KIND.load(Ordering::SeqCst) {
            1 => serde_json::from_str(t).map(O::G),
            2 => serde_json::from_str(t).map(O::P),
            3 => serde_json::from_str(t).map(O::L),
            _ => serde_json::from_str(t).map(O::V),
        }
        .map_err(|e| e.to_string())
    }
    fn semantic_prop() -> &'static str {
        "C11"
    }
    fn gen_op_props() -> Vec<&'static str> {
        vec!["C11"]
    }
    fn validation_props() -> Vec<&'static str> {
        vec!["C11"]
    }
    fn is_ctx_path(_path: &str) -> bool {
        false
    }
}

impl crate::drive::Driveable for SimpleEng {
    fn random_cmd(s: &S, r: usize, rng: &mut rand::rngs::StdRng, _d: &Dims) -> Option<Value> {
        use rand::Rng;
        Some(match s {
            S::G(_) => {
                if rng.gen_bool(0.6) { json!({"c": "inc", "k": 1}) } else { json!({"c": "inc_many", "k": rng.gen_range(0..4u64)}) }
            }
            S::P(_) => match rng.gen_range(0..4) {
                0 => json!({"c": "inc", "k": 1}),
                1 => json!({"c": "dec", "k": 1}),
                2 => json!({"c": "inc_many", "k": rng.gen_range(0..4u64)}),
                _ => json!({"c": "dec_many", "k": rng.gen_range(0..4u64)}),
            },
            // markers are made unique: a random high part, the replica in the low digit
            S::L(_) => json!({"c": "update", "v": rng.gen_range(1..=3i64), "mk": rng.gen_range(1..100_000_000u64) * 8 + r as u64}),
            S::Mx(_) | S::Mn(_) => json!({"c": "write", "v": rng.gen_range(-3..=3i64)}),
            S::St(_) => json!({"c": "insert", "v": rng.gen_range(1..=6i64)}),
        })
    }
}
