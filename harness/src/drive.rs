//! impl -> spec: a seeded random driver runs histories on the real code (more
//! replicas / elements / ops than TLC enumerates) and logs one event per API call
//! with its arguments, the op the API built, the post-state projection and the
//! reads; Trace_*.tla replays the log with the spec's own actions and reports
//! every event at which the recorded behaviour is not the spec's.

use crate::core::*;
use rand::rngs::StdRng;
use rand::{Rng, SeedableRng};
use serde_json::{json, Value};
use std::io::Write;

/// the TLA+ Json module cannot deserialise null: replace it by the string "NULL"
fn no_nulls(v: Value) -> Value {
    match v {
        Value::Null => json!("NULL"),
        Value::Array(a) => Value::Array(a.into_iter().map(no_nulls).collect()),
        Value::Object(m) => Value::Object(m.into_iter().map(|(k, x)| (k, no_nulls(x))).collect()),
        x => x,
    }
}

pub trait Driveable: Engine {
    /// a random command (same command language as the spec's Cmds) enabled in local state s
    fn random_cmd(s: &Self::S, r: usize, rng: &mut StdRng, d: &Dims) -> Option<Value>;
}

pub struct DriveOpts {
    pub seed: u64,
    pub histories: usize,
    pub steps: usize,
    pub max_ops: usize,
    pub dims: Dims,
    pub regime: String,
    pub merge: bool,
    pub snap: bool,
}

pub fn drive<E: Driveable>(out: &str, o: &DriveOpts) {
    let mut rng = StdRng::seed_from_u64(o.seed);
    let mut w = std::io::BufWriter::new(std::fs::File::create(out).expect("trace file"));
    let d = o.dims.clone();
    let n = d.n;
    let actor_of = |r: usize| r as u8;
    let mut events = 0u64;
    // watchdog: a driver call that does not return is reported (exit code 3, one JSON line) instead of blocking the check
    let cur: std::sync::Arc<std::sync::Mutex<(u64, Value)>> = std::sync::Arc::new(std::sync::Mutex::new((0, Value::Null)));
    {
        let cur = cur.clone();
        let hang_secs = crate::hang_limit();
        std::thread::spawn(move || {
            let mut seen = (0u64, std::time::Instant::now());
            loop {
                std::thread::sleep(std::time::Duration::from_millis(500));
                let (n, a) = { let g = cur.lock().unwrap(); (g.0, g.1.clone()) };
                if n != seen.0 {
                    seen = (n, std::time::Instant::now());
                } else if n != 0 && seen.1.elapsed().as_secs() >= hang_secs {
                    println!("{}", json!({"hang": a, "secs": hang_secs}));
                    std::process::exit(3);
                }
            }
        });
    }
    for hno in 0..o.histories {
        let mut sys: Sys<E> = Sys::new(n);
        for _ in 0..o.steps {
            let roll: f64 = rng.gen();
            let r = rng.gen_range(1..=n);
            let act: Option<Value> = if roll < 0.35 && sys.ops.len() < o.max_ops {
                // choosing a command reads the replica through the public API: a panic there is the library's
                match crate::core::catch(|| E::random_cmd(&sys.st[r - 1], r, &mut rng, &d)) {
                    Ok(c) => c.map(|c| json!(["gen", r, c])),
                    Err(e) => {
                        writeln!(w, "{}", json!({"a": "panic", "r": r, "h": hno, "what": format!("PANIC while reading replica {}: {}", r, e), "act": ["read", r, 0]})).unwrap();
                        events += 1;
                        break;
                    }
                }
            } else if roll < 0.75 {
                // a delivery allowed by the regime
                let cands: Vec<usize> = (1..=sys.ops.len())
                    .filter(|i| !sys.know[r - 1].contains(i))
                    .filter(|i| {
                        let rec = &sys.ops[*i - 1];
                        match o.regime.as_str() {
                            "causal" => rec.deps.is_subset(&sys.know[r - 1]),
                            "fifo" => (1..*i).all(|j| sys.ops[j - 1].author != rec.author || sys.know[r - 1].contains(&j)),
                            _ => true,
                        }
                    })
                    .collect();
                if cands.is_empty() {
                    None
                } else {
                    Some(json!(["dlv", r, cands[rng.gen_range(0..cands.len())]]))
                }
            } else if roll < 0.82 {
                let k: Vec<usize> = sys.know[r - 1].iter().cloned().collect();
                if k.is_empty() {
                    None
                } else {
                    Some(json!(["dup", r, k[rng.gen_range(0..k.len())]]))
                }
            } else if roll < 0.95 && o.merge && E::HAS_MERGE && n > 1 {
                let mut q = rng.gen_range(1..=n);
                if q == r {
                    q = q % n + 1;
                }
                Some(json!(["mrg", r, q]))
            } else if o.snap && o.merge && E::HAS_MERGE {
                if sys.snap.is_some() && rng.gen_bool(0.6) {
                    Some(json!(["mrgsnap", r, 0]))
                } else if !sys.know[r - 1].is_empty() {
                    Some(json!(["save", r, 0]))
                } else {
                    None
                }
            } else {
                None
            };
            let act = match act {
                Some(a) => a,
                None => continue,
            };
            {
                let mut g = cur.lock().unwrap();
                g.0 += 1;
                g.1 = json!({"history": hno, "act": act});
            }
            let who = match sys.step(&act, &actor_of) {
                Ok(w) => w,
                Err(e) => {
                    writeln!(w, "{}", json!({"a": "panic", "r": r, "h": hno, "what": e, "act": act})).unwrap();
                    events += 1;
                    break;
                }
            };
            let rr = act[1].as_u64().unwrap() as usize;
            let s = &sys.st[rr - 1];
            let ev = match crate::core::catch(|| json!({
                "a": act[0], "r": rr, "x": act[2], "h": hno,
                "post": E::proj(s, &d), "tpost": E::trace_post(s, &d), "reads": E::reads(s, &d),
                "op": match sys.last_op.as_ref() { Some(op) => json!([E::op_proj(op, &d)]), None => json!([]) },
            })) {
                Ok(ev) => ev,
                Err(e) => {
                    // the call returned but the replica cannot be read any more
                    writeln!(w, "{}", json!({"a": "panic", "r": rr, "h": hno, "what": format!("PANIC while reading replica {} after the call: {}", rr, e), "act": act})).unwrap();
                    events += 1;
                    break;
                }
            };
            let _ = who;
            writeln!(w, "{}", no_nulls(ev)).unwrap();
            events += 1;
        }
        let fresh = E::new_state();
        writeln!(w, "{}", no_nulls(json!({"a": "reset", "r": 1, "x": 0, "h": hno, "post": E::proj(&fresh, &d), "tpost": E::trace_post(&fresh, &d), "reads": E::reads(&fresh, &d), "op": []}))).unwrap();
        events += 1;
    }
    cur.lock().unwrap().0 = 0; // done: the watchdog stands down
    w.flush().unwrap();
    println!("{}", json!({"events": events, "histories": o.histories}));
}
