//! "One test per case" engines: TLC enumerates a finite universe of inputs of a
//! pure function family (clocks, identifiers), checks the declarative laws on the
//! specification and prints each case with its expected results; the harness
//! evaluates the real methods on every case.

use crate::core::*;
use crate::eng_orswot::{clock_json, vclock_of};
use crate::tree::to_tree;
use crdts::{CmRDT, CvRDT, Dot, ResetRemove, VClock};
use serde_json::{json, Value};
use std::cmp::Ordering;

fn arr(v: &Value) -> Vec<u64> {
    v.as_array().unwrap().iter().map(|x| x.as_u64().unwrap()).collect()
}

fn ord_name(o: Option<Ordering>) -> &'static str {
    match o {
        Some(Ordering::Equal) => "EQ",
        Some(Ordering::Greater) => "GT",
        Some(Ordering::Less) => "LT",
        None => "NONE",
    }
}

fn has_zero(c: &VClock<u8>) -> bool {
    to_tree(c).map().iter().any(|(_, n)| n.u() == 0)
}

pub fn clocks_line(ln: &Value, rep: &mut Report, known: &Known) {
    let _ = known;
    rep.lines += 1;
    let cv = arr(&ln["c"]);
    let dv = arr(&ln["d"]);
    let n = cv.len();
    let c = vclock_of(&cv);
    let d = vclock_of(&dv);
    let h = json!({"c": cv, "d": dv});
    let mut chk = |rep: &mut Report, props: &[&str], obs: &str, real: Value, exp: Value| {
        rep.eval(props);
        if real != exp {
            rep.add("violation", props, "clocks", obs, real, exp, Value::Null, &h, Value::Null);
        }
    };
    // order
    chk(rep, &["C10"], "partial_cmp", json!(ord_name(c.partial_cmp(&d))), ln["cmp"].clone());
    chk(rep, &["C10"], "concurrent", json!(c.concurrent(&d)), ln["conc"].clone());
    let ge = c >= d;
    chk(rep, &["C10"], "ge", json!(ge), json!(ln["cmp"] == "GT" || ln["cmp"] == "EQ"));
    chk(rep, &["C10"], "eq", json!(c == d), json!(ln["cmp"] == "EQ"));
    // join (CvRDT::merge), also through from_iter
    let mut j = c.clone();
    j.merge(d.clone());
    chk(rep, &["C10", "C02"], "merge", clock_json(&j, n), ln["join"].clone());
    let fi: VClock<u8> = c.clone().into_iter().chain(d.clone().into_iter()).collect();
    chk(rep, &["C10"], "from_iter", clock_json(&fi, n), ln["join"].clone());
    chk(rep, &["C10", "C17"], "validate_merge", json!(c.validate_merge(&d).is_ok()), json!(true));
    // meet
    let mut g = c.clone();
    g.glb(&d);
    chk(rep, &["C10"], "glb", clock_json(&g, n), ln["glb"].clone());
    // forget
    let mut f = c.clone();
    f.reset_remove(&d);
    chk(rep, &["C10", "C18"], "reset_remove", clock_json(&f, n), ln["forget"].clone());
    chk(rep, &["C10"], "clone_without", clock_json(&c.clone_without(&d), n), ln["forget"].clone());
    chk(rep, &["C10"], "is_empty", json!(f.is_empty()), json!(arr(&ln["forget"]).iter().all(|x| *x == 0)));
    // intersection
    let it = VClock::intersection(&c, &d);
    chk(rep, &["C10"], "intersection", clock_json(&it, n), ln["inter"].clone());
    // no call stores a zero counter
    let zero = has_zero(&j) || has_zero(&g) || has_zero(&f) || has_zero(&it) || has_zero(&fi);
    chk(rep, &["C10"], "zero_counter", json!(zero), json!(false));
    // dots
    for a in 0..n {
        let actor = (a + 1) as u8;
        chk(rep, &["C10"], "get", json!(c.get(&actor)), json!(cv[a]));
        chk(rep, &["C10"], "dot", json!(c.dot(actor).counter), json!(cv[a]));
        let inc = c.inc(actor);
        chk(rep, &["C10", "C07"], "inc", json!([inc.actor, inc.counter]), json!([actor, ln["inc"][a]]));
        let applies = ln["apply"][a].as_array().unwrap();
        for (i, exp) in applies.iter().enumerate() {
            let dot = Dot::new(actor, i as u64);
            let mut x = c.clone();
            x.apply(dot);
            chk(rep, &["C10"], "apply", clock_json(&x, n), exp.clone());
            chk(rep, &["C10"], "zero_counter", json!(has_zero(&x)), json!(false));
            let v = match c.validate_op(&dot) {
                Ok(()) => "Ok".to_string(),
                Err(r) => {
                    // the reported range must be exactly the skipped counters
                    if r.actor == actor && r.counter_range.start == cv[a] + 1 && r.counter_range.end == i as u64 {
                        "DotRange".to_string()
                    } else {
                        format!("DotRange-with-wrong-range {:?}", r)
                    }
                }
            };
            chk(rep, &["C10", "C16"], "validate_op", json!(v), ln["vop"][a][i].clone());
            let from: VClock<u8> = VClock::from(dot);
            chk(rep, &["C10"], "zero_counter", json!(has_zero(&from)), json!(false));
            chk(rep, &["C10"], "from_dot", clock_json(&from, n), ln["single"][a][i].clone());
        }
        for b in 0..n {
            let d1 = Dot::new(actor, cv[a]);
            let d2 = Dot::new((b + 1) as u8, dv[b]);
            chk(rep, &["C10"], "dot.partial_cmp", json!(ord_name(d1.partial_cmp(&d2))), ln["dotcmp"][a][b].clone());
            chk(rep, &["C10"], "dot.eq", json!(d1 == d2), json!(ln["dotcmp"][a][b] == "EQ"));
        }
    }
    // ---- the simple types' lattices on the same universe (C11, C02): states built through the op path, joined by merge ----
    {
        use crdts::{GCounter, GSet, MaxReg, MinReg, PNCounter};
        use num::ToPrimitive;
        let gc = |v: &[u64]| {
            let mut g: GCounter<u8> = GCounter::new();
            for (i, k) in v.iter().enumerate() {
                if *k > 0 {
                    g.apply(Dot::new((i + 1) as u8, *k));
                }
            }
            g
        };
        let inner = |g: &GCounter<u8>| {
            let mut z = false;
            clock_arr(&to_tree(g), n, &mut z) // GCounter is #[serde(transparent)] over its clock
        };
        let mut g = gc(&cv);
        g.merge(gc(&dv));
        chk(rep, &["C11", "C02"], "gcounter.merge.read", json!(g.read().to_u64()), ln["gread"].clone());
        chk(rep, &["C11", "C02"], "gcounter.merge.state", inner(&g), ln["join"].clone());
        let mut g2 = gc(&dv);
        g2.merge(gc(&cv));
        chk(rep, &["C02"], "gcounter.merge.comm", json!(inner(&g2) == inner(&g)), json!(true));
        let pn = |p: &[u64], m: &[u64]| {
            let mut x: PNCounter<u8> = PNCounter::new();
            for (i, k) in p.iter().enumerate() {
                if *k > 0 {
                    x.apply(crdts::pncounter::Op { dot: Dot::new((i + 1) as u8, *k), dir: crdts::pncounter::Dir::Pos });
                }
            }
            for (i, k) in m.iter().enumerate() {
                if *k > 0 {
                    x.apply(crdts::pncounter::Op { dot: Dot::new((i + 1) as u8, *k), dir: crdts::pncounter::Dir::Neg });
                }
            }
            x
        };
        let zero = vec![0u64; n];
        let mut x = pn(&cv, &zero);
        x.merge(pn(&dv, &cv));
        chk(rep, &["C11", "C02"], "pncounter.merge.read", json!(x.read().to_i64()), ln["pnread"].clone());
        let gs = |v: &[u64]| {
            let mut s: GSet<u8> = GSet::new();
            for (i, k) in v.iter().enumerate() {
                if *k > 0 {
                    s.insert((i + 1) as u8);
                }
            }
            s
        };
        let mut s1 = gs(&cv);
        s1.merge(gs(&dv));
        let support: Vec<u64> = (1..=n).map(|a| if s1.contains(&(a as u8)) { 1 } else { 0 }).collect();
        chk(rep, &["C11", "C02"], "gset.merge", json!(support), ln["gset"].clone());
        chk(rep, &["C11"], "gset.merge.read", json!(s1.read().len()), json!(arr(&ln["gset"]).iter().filter(|x| **x > 0).count()));
        let mut mx = MaxReg { val: cv[0] };
        mx.merge(MaxReg { val: dv[0] });
        chk(rep, &["C11", "C02"], "maxreg.merge", json!(mx.val), ln["maxv"].clone());
        let mut mn = MinReg { val: cv[0] };
        mn.merge(MinReg { val: dv[0] });
        chk(rep, &["C11", "C02"], "minreg.merge", json!(mn.val), ln["minv"].clone());
    }
    if cv.iter().filter(|x| **x > 0).count() >= 2 && dv.iter().filter(|x| **x > 0).count() >= 2 {
        rep.nontriv("both_clocks_have_two_actors");
    }
    if ln["cmp"] == "NONE" {
        rep.nontriv("concurrent_pair");
    }
    if rep.samples.len() < 3 && ln["cmp"] == "NONE" && rep.lines % 37 == 5 {
        rep.samples.push(json!({"c": ln["c"], "d": ln["d"], "cmp": ln["cmp"], "join": ln["join"], "forget": ln["forget"]}));
    }
}

// ---------------------------------------------------------------------------
// identifiers
// ---------------------------------------------------------------------------
use crdts::Identifier;
use num::{BigInt, BigRational};

pub fn rat_of(v: &Value) -> BigRational {
    BigRational::new(BigInt::from(v[0].as_i64().unwrap()), BigInt::from(v[1].as_i64().unwrap()))
}

/// build an identifier with an arbitrary path through its Deserialize impl
/// (the only public constructor makes one-node identifiers)
pub fn ident_of<T: serde::Serialize + serde::de::DeserializeOwned + Ord + Clone + std::fmt::Debug>(path: &Value, marker: &dyn Fn(&Value) -> T) -> Identifier<T> {
    let nodes: Vec<(BigRational, T)> = path.as_array().unwrap().iter().map(|n| (rat_of(&n[0]), marker(&n[1]))).collect();
    let txt = serde_json::to_string(&nodes).unwrap();
    serde_json::from_str(&txt).expect("identifier from path")
}

fn bigint_of_tree(t: &crate::tree::Tree) -> i64 {
    // BigInt serialises as (sign, [u32 digits little endian])
    let s = t.seq();
    let sign = s[0].i();
    let mut mag: i128 = 0;
    for (i, d) in s[1].seq().iter().enumerate() {
        mag += (d.u() as i128) << (32 * i);
    }
    (sign as i128 * mag) as i64
}

/// identifier -> [[[num, den], marker-json], ...]
pub fn ident_json(t: &crate::tree::Tree, marker: &dyn Fn(&crate::tree::Tree) -> Value) -> Value {
    let nodes: Vec<Value> = t
        .seq()
        .iter()
        .map(|n| {
            let n = n.seq();
            let r = n[0].seq();
            json!([[bigint_of_tree(&r[0]), bigint_of_tree(&r[1])], marker(&n[1])])
        })
        .collect();
    json!(nodes)
}

pub fn ident_line(ln: &Value, rep: &mut Report, _known: &Known) {
    rep.lines += 1;
    let mk = |v: &Value| v.as_u64().unwrap() as u8;
    let mj = |t: &crate::tree::Tree| json!(t.u());
    let lo: Identifier<u8> = ident_of(&ln["lo"], &mk);
    let hi: Identifier<u8> = ident_of(&ln["hi"], &mk);
    let m = ln["m"].as_u64().unwrap() as u8;
    let h = json!({"lo": ln["lo"], "hi": ln["hi"], "m": m});
    let mut chk = |rep: &mut Report, props: &[&str], obs: &str, real: Value, exp: Value| {
        rep.eval(props);
        if real != exp {
            rep.add("violation", props, "ident", obs, real, exp, Value::Null, &h, Value::Null);
        }
    };
    let c = match lo.cmp(&hi) {
        Ordering::Less => -1,
        Ordering::Equal => 0,
        Ordering::Greater => 1,
    };
    chk(rep, &["C14"], "cmp", json!(c), ln["cmp"].clone());
    chk(rep, &["C14"], "eq", json!(lo == hi), json!(ln["cmp"] == 0));
    chk(rep, &["C14"], "partial_cmp", json!(lo.partial_cmp(&hi) == Some(lo.cmp(&hi))), json!(true));
    let b = crate::core::catch(|| Identifier::between(Some(&lo), Some(&hi), m));
    match b {
        Ok(b) => {
            // the exact identifier is the allocation strategy (the spec's transcription of between): a
            // difference is drift; the PROPERTY (strictly inside, tagged with the marker) is judged below
            let bj = ident_json(&to_tree(&b), &mj);
            if bj != ln["btw"] {
                rep.add("drift", &[], "ident", "between", bj.clone(), Value::Null, ln["btw"].clone(), &h, Value::Null);
            }
            if c != 0 {
                chk(rep, &["C14"], "between.tagged", bj.as_array().and_then(|a| a.last()).map(|n| n[1].clone()).unwrap_or(Value::Null), json!(m));
            }
            // the property itself, evaluated with the real order
            if c != 0 {
                let (l, g) = if c < 0 { (&lo, &hi) } else { (&hi, &lo) };
                chk(rep, &["C14", "C13"], "between.strictly_inside", json!(l < &b && &b < g), json!(true));
            }
        }
        Err(e) => chk(rep, &["C14"], "between.panic", json!(e), json!("no panic")),
    }
    let a = Identifier::between(Some(&lo), None, m);
    if ident_json(&to_tree(&a), &mj) != ln["after"] {
        rep.add("drift", &[], "ident", "between.after", ident_json(&to_tree(&a), &mj), Value::Null, ln["after"].clone(), &h, Value::Null);
    }
    chk(rep, &["C14", "C13"], "between.after.beyond", json!(lo < a), json!(true));
    let bf = Identifier::between(None, Some(&hi), m);
    if ident_json(&to_tree(&bf), &mj) != ln["before"] {
        rep.add("drift", &[], "ident", "between.before", ident_json(&to_tree(&bf), &mj), Value::Null, ln["before"].clone(), &h, Value::Null);
    }
    chk(rep, &["C14", "C13"], "between.before.beyond", json!(bf < hi), json!(true));
    let nn: Identifier<u8> = Identifier::between(None, None, m);
    if ident_json(&to_tree(&nn), &mj) != ln["none"] {
        rep.add("drift", &[], "ident", "between.none", ident_json(&to_tree(&nn), &mj), Value::Null, ln["none"].clone(), &h, Value::Null);
    }
    chk(rep, &["C14"], "between.none.tagged", json!(*nn.value()), json!(m));
    // value() is the marker of the last node
    chk(rep, &["C14"], "value", json!(*a.value()), json!(m));
    let lo_len = ln["lo"].as_array().unwrap().len();
    let hi_len = ln["hi"].as_array().unwrap().len();
    if lo_len != hi_len {
        rep.nontriv("different_depth");
    }
    if ln["lo"][0][0] == ln["hi"][0][0] && ln["lo"][0][1] != ln["hi"][0][1] {
        rep.nontriv("equal_rational_siblings");
    }
    if lo_len != hi_len && ln["lo"][0] == ln["hi"][0] {
        rep.nontriv("prefix_related");
    }
    if rep.samples.len() < 3 && lo_len != hi_len && ln["lo"][0] == ln["hi"][0] && rep.lines % 101 == 7 {
        rep.samples.push(json!({"lo": ln["lo"], "hi": ln["hi"], "m": m, "cmp": ln["cmp"], "between": ln["btw"]}));
    }
}
