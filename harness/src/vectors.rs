//! "One test per case" engines: TLC enumerates a finite universe of inputs of a
//! pure function family (clocks, identifiers), checks the declarative laws on the
//! specification and prints each case with its expected results; the harness
//! evaluates the real methods on every case.

use crate::core::*;
use crate::eng_orswot::{clock_json, vclock_of};
use crate::tree::to_tree;
use crdts::{CmRDT, CvRDT, Dot, ResetRemove, VClock};
use serde_json::{json, Value};
use std::cmp::Ordering;

fn arr(v: &Value) -> Vec<u64> {
    v.as_array().unwrap().iter().map(|x| x.as_u64().unwrap()).collect()
}

fn ord_name(o: Option<Ordering>) -> &'static str {
    match o {
        Some(Ordering::Equal) => "EQ",
        Some(Ordering::Greater) => "GT",
        Some(Ordering::Less) => "LT",
        None => "NONE",
    }
}

fn has_zero(c: &VClock<u8>) -> bool {
    to_tree(c).map().iter().any(|(_, n)| n.u() == 0)
}

pub fn clocks_line(ln: &Value, rep: &mut Report, known: &Known) {
    let _ = known;
    rep.lines += 1;
    let cv = arr(&ln["c"]);
    let dv = arr(&ln["d"]);
    let n = cv.len();
    let c = vclock_of(&cv);
    let d = vclock_of(&dv);
    let h = json!({"c": cv, "d": dv});
    let mut chk = |rep: &mut Report, props: &[&str], obs: &str, real: Value, exp: Value| {
        rep.eval(props);
        if real != exp {
            rep.add("violation", props, "clocks", obs, real, exp, Value::Null, &h, Value::Null);
        }
    };
    // order
    chk(rep, &["C10"], "partial_cmp", json!(ord_name(c.partial_cmp(&d))), ln["cmp"].clone());
    chk(rep, &["C10"], "concurrent", json!(c.concurrent(&d)), ln["conc"].clone());
    let ge = c >= d;
    chk(rep, &["C10"], "ge", json!(ge), json!(ln["cmp"] == "GT" || ln["cmp"] == "EQ"));
    chk(rep, &["C10"], "eq", json!(c == d), json!(ln["cmp"] == "EQ"));
    // join (CvRDT::merge), also through from_iter
    let mut j = c.clone();
    j.merge(d.clone());
    chk(rep, &["C10", "C02"], "merge", clock_json(&j, n), ln["join"].clone());
    let fi: VClock<u8> = c.clone().into_iter().chain(d.clone().into_iter()).collect();
    chk(rep, &["C10"], "from_iter", clock_json(&fi, n), ln["join"].clone());
    chk(rep, &["C10", "C17"], "validate_merge", json!(c.validate_merge(&d).is_ok()), json!(true));
    // meet
    let mut g = c.clone();
    g.glb(&d);
    chk(rep, &["C10"], "glb", clock_json(&g, n), ln["glb"].clone());
    // forget
    let mut f = c.clone();
    f.reset_remove(&d);
    chk(rep, &["C10", "C18"], "reset_remove", clock_json(&f, n), ln["forget"].clone());
    chk(rep, &["C10"], "clone_without", clock_json(&c.clone_without(&d), n), ln["forget"].clone());
    chk(rep, &["C10"], "is_empty", json!(f.is_empty()), json!(arr(&ln["forget"]).iter().all(|x| *x == 0)));
    // intersection
    let it = VClock::intersection(&c, &d);
    chk(rep, &["C10"], "intersection", clock_json(&it, n), ln["inter"].clone());
    // no call stores a zero counter
    let zero = has_zero(&j) || has_zero(&g) || has_zero(&f) || has_zero(&it) || has_zero(&fi);
    chk(rep, &["C10"], "zero_counter", json!(zero), json!(false));
    // dots
    for a in 0..n {
        let actor = (a + 1) as u8;
        chk(rep, &["C10"], "get", json!(c.get(&actor)), json!(cv[a]));
        chk(rep, &["C10"], "dot", json!(c.dot(actor).counter), json!(cv[a]));
        let inc = c.inc(actor);
        chk(rep, &["C10", "C07"], "inc", json!([inc.actor, inc.counter]), json!([actor, ln["inc"][a]]));
        let applies = ln["apply"][a].as_array().unwrap();
        for (i, exp) in applies.iter().enumerate() {
            let dot = Dot::new(actor, i as u64);
            let mut x = c.clone();
            x.apply(dot);
            chk(rep, &["C10"], "apply", clock_json(&x, n), exp.clone());
            chk(rep, &["C10"], "zero_counter", json!(has_zero(&x)), json!(false));
            let v = match c.validate_op(&dot) {
                Ok(()) => "Ok".to_string(),
                Err(r) => {
                    // the reported range must be exactly the skipped counters
                    if r.actor == actor && r.counter_range.start == cv[a] + 1 && r.counter_range.end == i as u64 {
                        "DotRange".to_string()
                    } else {
                        format!("DotRange-with-wrong-range {:?}", r)
                    }
                }
            };
            chk(rep, &["C10", "C16"], "validate_op", json!(v), ln["vop"][a][i].clone());
            let from: VClock<u8> = VClock::from(dot);
            chk(rep, &["C10"], "zero_counter", json!(has_zero(&from)), json!(false));
        }
        for b in 0..n {
            let d1 = Dot::new(actor, cv[a]);
            let d2 = Dot::new((b + 1) as u8, dv[b]);
            chk(rep, &["C10"], "dot.partial_cmp", json!(ord_name(d1.partial_cmp(&d2))), ln["dotcmp"][a][b].clone());
        }
    }
    if cv.iter().filter(|x| **x > 0).count() >= 2 && dv.iter().filter(|x| **x > 0).count() >= 2 {
        rep.nontriv("both_clocks_have_two_actors");
    }
    if ln["cmp"] == "NONE" {
        rep.nontriv("concurrent_pair");
    }
    if rep.samples.len() < 3 && ln["cmp"] == "NONE" && rep.lines % 37 == 5 {
        rep.samples.push(json!({"c": ln["c"], "d": ln["d"], "cmp": ln["cmp"], "join": ln["join"], "forget": ln["forget"]}));
    }
}
