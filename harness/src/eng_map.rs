//! Map<u8, V, u8> for nested value types V, bound to MapCrdt.tla / SysMap.tla.
//! The value type is described by the `MVal` trait (the Rust counterpart of the
//! spec's type descriptor); `MapEng<V>` is the engine for Map<u8, V, u8>.

use crate::core::*;
use crate::eng_mvreg::{canon_mvreg_b, mvreg_op_proj, mvreg_proj_tree};
use crate::eng_orswot::{canon_orswot_b, clock_json, orswot_op_proj, orswot_proj_tree, vclock_of};
use crate::tree::{to_tree, Tree};
use crdts::ctx::AddCtx;
use crdts::map::{Map, Op};
use crdts::{CmRDT, CvRDT, MVReg, Orswot, ResetRemove};
use serde::de::DeserializeOwned;
use serde::Serialize;
use serde_json::{json, Value};
use std::fmt::Debug;
use std::marker::PhantomData;

pub trait MVal: Clone + Default + PartialEq + Debug + Serialize + DeserializeOwned + ResetRemove<u8> + CmRDT + CvRDT
where
    <Self as CmRDT>::Op: Clone + Debug + Serialize + DeserializeOwned,
    <Self as CmRDT>::Validation: Debug,
    <Self as CvRDT>::Validation: Debug,
{
    const TAG: &'static str;
    /// engine name of Map<u8, Self, u8> and of Map<u8, Map<u8, Self, u8>, u8>
    const MAPNAME: &'static str;
    const NESTED_MAPNAME: &'static str;
    /// ... and of Map<u8, Map<u8, Map<u8, Self, u8>, u8>, u8>
    const NESTED2_MAPNAME: &'static str;
    /// the closure body handed to Map::update for this command
    fn gen_nested(v: &Self, ctx: AddCtx<u8>, cmd: &Value) -> <Self as CmRDT>::Op;
    fn proj_tree(t: &Tree, d: &Dims) -> Value;
    fn canon_b(b: &Value) -> Value;
    fn op_proj(o: &<Self as CmRDT>::Op, d: &Dims) -> Value;
    fn canon_op(o: &Value) -> Value;
    /// the layer-A view of a NESTED op of this type (see Engine::op_a_view)
    fn nested_a_view(o: &Value) -> Value;
    /// contents through the public read API, canonical ("shown" schema)
    fn shown(v: &Self, d: &Dims) -> Value;
    /// the same, computed from a B-projection
    fn shown_of_b(b: &Value, d: &Dims) -> Value;
    /// layer-A `sem` JSON -> "shown" schema
    fn canon_sem(a: &Value, d: &Dims) -> Value;
    fn tree_has_pending(t: &Tree) -> bool;
    /// a random nested command (the spec's ValCmds) for local value v
    fn random_cmd(v: &Self, rng: &mut rand::rngs::StdRng, d: &Dims) -> Value;
    fn nested_add_all(_o: &<Self as CmRDT>::Op) -> bool {
        false
    }
}

// ---------------------------------------------------------------------------
impl MVal for MVReg<u8, u8> {
    const TAG: &'static str = "mv";
    const MAPNAME: &'static str = "map_mv";
    const NESTED_MAPNAME: &'static str = "map_map_mv";
    const NESTED2_MAPNAME: &'static str = "map_map_map_mv";
    fn gen_nested(v: &Self, ctx: AddCtx<u8>, cmd: &Value) -> crdts::mvreg::Op<u8, u8> {
        v.write(cmd["v"].as_u64().unwrap() as u8, ctx)
    }
    fn proj_tree(t: &Tree, d: &Dims) -> Value {
        mvreg_proj_tree(t, d)
    }
    fn canon_b(b: &Value) -> Value {
        canon_mvreg_b(b)
    }
    fn op_proj(o: &crdts::mvreg::Op<u8, u8>, d: &Dims) -> Value {
        mvreg_op_proj(o, d)
    }
    fn canon_op(o: &Value) -> Value {
        json!({"clock": o["clock"], "val": o["val"]})
    }
    fn nested_a_view(o: &Value) -> Value {
        // the clock of a nested put is whatever the enclosing map hands to write(): layer-B detail
        json!({"val": o["val"]})
    }
    fn shown(v: &Self, _d: &Dims) -> Value {
        let mut val: Vec<u64> = v.read().val.iter().map(|x| *x as u64).collect();
        val.sort();
        json!({"vals": val})
    }
    fn shown_of_b(b: &Value, _d: &Dims) -> Value {
        let mut val: Vec<u64> = b["vals"].as_array().unwrap().iter().map(|p| p[1].as_u64().unwrap()).collect();
        val.sort();
        json!({"vals": val})
    }
    fn canon_sem(a: &Value, _d: &Dims) -> Value {
        let mut val: Vec<u64> = vec![];
        for p in a["vals"].as_array().unwrap() {
            for _ in 0..p[1].as_u64().unwrap() {
                val.push(p[0].as_u64().unwrap());
            }
        }
        val.sort();
        json!({"vals": val})
    }
    fn tree_has_pending(_t: &Tree) -> bool {
        false
    }
    fn random_cmd(_v: &Self, rng: &mut rand::rngs::StdRng, _d: &Dims) -> Value {
        use rand::Rng;
        json!({"c": "write", "v": rng.gen_range(1..=2u64)})
    }
}

impl MVal for Orswot<u8, u8> {
    const TAG: &'static str = "or";
    const MAPNAME: &'static str = "map_or";
    const NESTED_MAPNAME: &'static str = "map_map_or";
    const NESTED2_MAPNAME: &'static str = "map_map_map_or";
    fn gen_nested(v: &Self, ctx: AddCtx<u8>, cmd: &Value) -> crdts::orswot::Op<u8, u8> {
        let m = cmd["m"].as_u64().unwrap() as u8;
        match cmd["c"].as_str().unwrap() {
            "add" => v.add(m, ctx),
            "rm" => v.rm(m, v.contains(&m).derive_rm_ctx()),
            c => panic!("unknown nested orswot command {}", c),
        }
    }
    fn proj_tree(t: &Tree, d: &Dims) -> Value {
        orswot_proj_tree(t, d)
    }
    fn canon_b(b: &Value) -> Value {
        canon_orswot_b(b)
    }
    fn op_proj(o: &crdts::orswot::Op<u8, u8>, d: &Dims) -> Value {
        orswot_op_proj(o, d)
    }
    fn canon_op(o: &Value) -> Value {
        let mut v = o.clone();
        if let Some(ms) = v.get_mut("members") {
            sort_array(ms);
        }
        v
    }
    fn nested_a_view(o: &Value) -> Value {
        // a nested member-remove carries the nested set's witness clock: layer-B detail
        if o["kind"] == "rm" {
            json!({"kind": "rm", "members": o["members"]})
        } else {
            o.clone()
        }
    }
    fn shown(v: &Self, _d: &Dims) -> Value {
        let mut val: Vec<u64> = v.read().val.iter().map(|x| *x as u64).collect();
        val.sort();
        json!({"members": val})
    }
    fn shown_of_b(b: &Value, _d: &Dims) -> Value {
        let mut val: Vec<u64> = vec![];
        for (i, c) in b["entries"].as_array().unwrap().iter().enumerate() {
            let present = match c.as_array() {
                Some(a) => a.iter().any(|x| x.as_u64() != Some(0)),
                None => true,
            };
            if present {
                val.push((i + 1) as u64);
            }
        }
        json!({"members": val})
    }
    fn canon_sem(a: &Value, _d: &Dims) -> Value {
        let mut v = a["members"].clone();
        sort_array(&mut v);
        json!({"members": v})
    }
    fn tree_has_pending(t: &Tree) -> bool {
        !t.field("deferred").map().is_empty()
    }
    fn random_cmd(v: &Self, rng: &mut rand::rngs::StdRng, d: &Dims) -> Value {
        use rand::Rng;
        let mut present: Vec<u64> = v.read().val.iter().map(|x| *x as u64).collect();
        present.sort(); // HashSet order must not reach the choice
        if !present.is_empty() && rng.gen_bool(0.4) {
            json!({"c": "rm", "m": present[rng.gen_range(0..present.len())]})
        } else {
            json!({"c": "add", "m": rng.gen_range(1..=d.m.max(1)) as u64})
        }
    }
    fn nested_add_all(o: &crdts::orswot::Op<u8, u8>) -> bool {
        matches!(o, crdts::orswot::Op::Add { members, .. } if members.len() >= 2)
    }
}

// ---------------------------------------------------------------------------
pub fn map_proj_tree<V: MVal>(t: &Tree, d: &Dims) -> Value
where
    <V as CmRDT>::Op: Clone + Debug + Serialize + DeserializeOwned,
    <V as CmRDT>::Validation: Debug,
    <V as CvRDT>::Validation: Debug,
{
    let mut z = false;
    let clock = clock_arr(t.field("clock"), d.n, &mut z);
    let mut entries: Vec<Value> = vec![json!([]); d.k];
    for (k, e) in t.field("entries").map() {
        let ki = k.u() as usize;
        if ki < 1 || ki > d.k {
            panic!("key {} outside 1..{}", ki, d.k);
        }
        let ec = clock_arr(e.field("clock"), d.n, &mut z);
        let empty = ec.as_array().unwrap().iter().all(|x| x.as_u64() == Some(0));
        entries[ki - 1] = json!([{"clock": if empty { json!(vec![-1i64; d.n]) } else { ec }, "val": V::proj_tree(e.field("val"), d)}]);
    }
    let mut deferred: Vec<Value> = t
        .field("deferred")
        .map()
        .iter()
        .map(|(c, ks)| {
            let mut v: Vec<u64> = ks.seq().iter().map(|x| x.u()).collect();
            v.sort();
            json!([clock_arr(c, d.n, &mut z), v])
        })
        .collect();
    deferred.sort_by(cmp_json);
    let mut o = json!({"clock": clock, "entries": entries, "deferred": deferred});
    if z {
        o["zero_entry"] = json!(true);
    }
    o
}

pub fn canon_map_b<V: MVal>(b: &Value) -> Value
where
    <V as CmRDT>::Op: Clone + Debug + Serialize + DeserializeOwned,
    <V as CmRDT>::Validation: Debug,
    <V as CvRDT>::Validation: Debug,
{
    let mut o = b.clone();
    if let Some(def) = o.get_mut("deferred") {
        if let Some(a) = def.as_array_mut() {
            for p in a.iter_mut() {
                sort_array(&mut p[1]);
            }
        }
        sort_array(def);
    }
    if let Some(es) = o.get_mut("entries").and_then(|e| e.as_array_mut()) {
        for e in es.iter_mut() {
            if let Some(slot) = e.as_array_mut() {
                if let Some(ent) = slot.get_mut(0) {
                    let v = V::canon_b(&ent["val"]);
                    ent["val"] = v;
                }
            }
        }
    }
    o
}

impl<V: MVal> MVal for Map<u8, V, u8>
where
    <V as CmRDT>::Op: Clone + Debug + Serialize + DeserializeOwned + PartialEq,
    <V as CmRDT>::Validation: Debug,
    <V as CvRDT>::Validation: Debug,
{
    const TAG: &'static str = "map";
    const MAPNAME: &'static str = V::NESTED_MAPNAME;
    const NESTED_MAPNAME: &'static str = V::NESTED2_MAPNAME;
    const NESTED2_MAPNAME: &'static str = "map_map_map_map";
    fn gen_nested(v: &Self, ctx: AddCtx<u8>, cmd: &Value) -> Op<u8, V, u8> {
        let k = cmd["k"].as_u64().unwrap() as u8;
        match cmd["c"].as_str().unwrap() {
            "up" => v.update(k, ctx, |inner, ctx| V::gen_nested(inner, ctx, &cmd["sub"])),
            "rm" => v.rm(k, v.get(&k).derive_rm_ctx()),
            "rmv" => v.rm(k, v.read_ctx().derive_rm_ctx()),
            c => panic!("unknown map command {}", c),
        }
    }
    fn proj_tree(t: &Tree, d: &Dims) -> Value {
        map_proj_tree::<V>(t, d)
    }
    fn canon_b(b: &Value) -> Value {
        canon_map_b::<V>(b)
    }
    fn op_proj(o: &Op<u8, V, u8>, d: &Dims) -> Value {
        match o {
            Op::Up { dot, key, op } => json!({"kind": "up", "actor": dot.actor, "counter": dot.counter, "key": *key as u64, "op": V::op_proj(op, d)}),
            Op::Rm { clock, keyset } => {
                let ks: Vec<u64> = keyset.iter().map(|x| *x as u64).collect();
                json!({"kind": "rm", "clock": clock_json(clock, d.n), "keys": ks})
            }
        }
    }
    fn canon_op(o: &Value) -> Value {
        let mut v = o.clone();
        if v["kind"] == "up" {
            let sub = V::canon_op(&v["op"]);
            v["op"] = sub;
        } else if let Some(ks) = v.get_mut("keys") {
            sort_array(ks);
        }
        v
    }
    fn nested_a_view(o: &Value) -> Value {
        if o["kind"] == "up" {
            json!({"kind": "up", "actor": o["actor"], "counter": o["counter"], "key": o["key"], "op": V::nested_a_view(&o["op"])})
        } else {
            // a nested key-remove carries the nested map's entry clock: layer-B detail
            json!({"kind": "rm", "keys": o["keys"]})
        }
    }
    fn shown(v: &Self, d: &Dims) -> Value {
        let mut entries = vec![Value::Null; d.k];
        for k in 1..=d.k {
            if let Some(x) = v.get(&(k as u8)).val {
                entries[k - 1] = V::shown(&x, d);
            }
        }
        json!({"entries": entries})
    }
    fn shown_of_b(b: &Value, d: &Dims) -> Value {
        let mut entries = vec![Value::Null; d.k];
        for (i, slot) in b["entries"].as_array().unwrap().iter().enumerate() {
            if let Some(ent) = slot.as_array().and_then(|a| a.first()) {
                entries[i] = V::shown_of_b(&ent["val"], d);
            }
        }
        json!({"entries": entries})
    }
    fn canon_sem(a: &Value, d: &Dims) -> Value {
        let mut entries = vec![Value::Null; d.k];
        for (i, slot) in a["entries"].as_array().unwrap().iter().enumerate() {
            if let Some(ent) = slot.as_array().and_then(|x| x.first()) {
                entries[i] = V::canon_sem(ent, d);
            }
        }
        json!({"entries": entries})
    }
    fn tree_has_pending(t: &Tree) -> bool {
        !t.field("deferred").map().is_empty()
            || t.field("entries").map().iter().any(|(_, e)| V::tree_has_pending(e.field("val")))
    }
    fn random_cmd(v: &Self, rng: &mut rand::rngs::StdRng, d: &Dims) -> Value {
        use rand::Rng;
        let present: Vec<u64> = v.keys().map(|c| *c.val as u64).collect();
        if !present.is_empty() && rng.gen_bool(0.3) {
            // half of the removes use the context of a whole-map read (several removes then share a clock)
            let c = if rng.gen_bool(0.5) { "rm" } else { "rmv" };
            json!({"c": c, "k": present[rng.gen_range(0..present.len())]})
        } else {
            let k = rng.gen_range(1..=d.k.max(1)) as u8;
            let inner = v.get(&k).val.unwrap_or_default();
            json!({"c": "up", "k": k as u64, "sub": V::random_cmd(&inner, rng, d)})
        }
    }
}

// ---------------------------------------------------------------------------
pub struct MapEng<V>(PhantomData<V>);

fn verdict_kind<E: Debug>(r: Result<(), E>) -> String {
    match r {
        Ok(()) => "Ok".into(),
        Err(e) => {
            let s = format!("{:?}", e);
            // SourceOrder(..) | Value(..) | DoubleSpentDot {..}
            s.split(|c| c == '(' || c == ' ' || c == '{').next().unwrap_or("Err").to_string()
        }
    }
}

impl<V: MVal> Engine for MapEng<V>
where
    <V as CmRDT>::Op: Clone + Debug + Serialize + DeserializeOwned + PartialEq,
    <V as CmRDT>::Validation: Debug,
    <V as CvRDT>::Validation: Debug,
{
    type S = Map<u8, V, u8>;
    type O = Op<u8, V, u8>;
    const NAME: &'static str = V::MAPNAME;
    const HAS_RESET: bool = true;
    const HAS_CTX: bool = true;

    fn new_state() -> Self::S {
        Map::new()
    }
    fn gen(s: &Self::S, actor: u8, cmd: &Value) -> Self::O {
        // the add context may be read through any of the read entry points; they
        // all carry the map clock (checked in `reads`)
        let k = cmd["k"].as_u64().unwrap() as u8;
        match cmd["c"].as_str().unwrap() {
            "up" => {
                // rotate through the read entry points: all of them carry the map clock as add context
                let n = s.read_ctx().add_clock.get(&actor) as usize;
                let ctx = match (k as usize + actor as usize + n) % 4 {
                    0 => s.read_ctx().derive_add_ctx(actor),
                    1 => s.get(&k).derive_add_ctx(actor),
                    2 => s.len().derive_add_ctx(actor),
                    _ => s.is_empty().derive_add_ctx(actor),
                };
                s.update(k, ctx, |inner, ctx| V::gen_nested(inner, ctx, &cmd["sub"]))
            }
            "rm" => s.rm(k, s.get(&k).derive_rm_ctx()),
            // the same remove with the context of a whole-map read (len / is_empty / read_ctx all carry it)
            "rmv" => s.rm(k, if k % 2 == 0 { s.len().derive_rm_ctx() } else { s.read_ctx().derive_rm_ctx() }),
            c => panic!("unknown map command {}", c),
        }
    }
    fn apply(s: &mut Self::S, op: Self::O) {
        s.apply(op)
    }
    fn merge(s: &mut Self::S, o: Self::S) {
        s.merge(o)
    }
    fn proj(s: &Self::S, d: &Dims) -> Value {
        map_proj_tree::<V>(&to_tree(s), d)
    }
    fn canon_b(b: &Value) -> Value {
        canon_map_b::<V>(b)
    }
    fn reads(s: &Self::S, d: &Dims) -> Value {
        Self::reads_full_or_light(s, d, true)
    }
    fn reads_light(s: &Self::S, d: &Dims) -> Value {
        Self::reads_full_or_light(s, d, false)
    }
    fn exp_reads(a: &Value, d: &Dims) -> Value {
        let sem = <Map<u8, V, u8> as MVal>::canon_sem(&a["sem"], d);
        reads_from(&sem, &a["clock"], a["wit"].as_array().unwrap(), d)
    }
    fn reads_of_b(b: &Value, d: &Dims) -> Option<Value> {
        let sem = <Map<u8, V, u8> as MVal>::shown_of_b(b, d);
        let mut wit = vec![];
        for slot in b["entries"].as_array().unwrap() {
            match slot.as_array().and_then(|x| x.first()) {
                Some(ent) => wit.push(ent["clock"].clone()),
                None => wit.push(json!(vec![0u64; d.n])),
            }
        }
        Some(reads_from(&sem, &b["clock"], &wit, d))
    }
    fn canon_from_a(_a: &Value, _d: &Dims) -> Option<Value> {
        None
    }
    fn a_no_pending(a: &Value) -> bool {
        a["pend"].as_array().map(|x| x.is_empty()).unwrap_or(true)
    }
    fn pending_from_a(a: &Value) -> Option<Value> {
        // top-level pending key removes (the nested values' pending tables are hidden state)
        Some(crate::eng_orswot::canon_orswot_b(&json!({"deferred": a["pend"]}))["deferred"].clone())
    }
    fn pending_of_proj(p: &Value) -> Option<Value> {
        Some(p["deferred"].clone())
    }
    fn op_proj(o: &Self::O, d: &Dims) -> Value {
        <Map<u8, V, u8> as MVal>::op_proj(o, d)
    }
    fn canon_op(o: &Value) -> Value {
        <Map<u8, V, u8> as MVal>::canon_op(o)
    }
    fn op_a_view(o: &Value) -> Value {
        if o["kind"] == "up" {
            json!({"kind": "up", "actor": o["actor"], "counter": o["counter"], "key": o["key"], "op": V::nested_a_view(&o["op"])})
        } else {
            // a top-level key-remove carries the key's witnesses (layer A: ExpWit), or the map clock for a whole-map read
            o.clone()
        }
    }
    fn validate_op(s: &Self::S, o: &Self::O) -> String {
        verdict_kind(s.validate_op(o))
    }
    fn validate_merge(a: &Self::S, b: &Self::S) -> String {
        verdict_kind(a.validate_merge(b))
    }
    fn reset(s: &mut Self::S, c: &[u64]) {
        s.reset_remove(&vclock_of(c))
    }
    fn eq(a: &Self::S, b: &Self::S) -> bool {
        a == b
    }
    fn ser_state(s: &Self::S) -> Result<String, String> {
        serde_json::to_string(s).map_err(|e| e.to_string())
    }
    fn de_state(t: &str) -> Result<Self::S, String> {
        serde_json::from_str(t).map_err(|e| e.to_string())
    }
    fn ser_op(o: &Self::O) -> Result<String, String> {
        serde_json::to_string(o).map_err(|e| e.to_string())
    }
    fn de_op(t: &str) -> Result<Self::O, String> {
        serde_json::from_str(t).map_err(|e| e.to_string())
    }
    fn has_pending(s: &Self::S) -> bool {
        <Map<u8, V, u8> as MVal>::tree_has_pending(&to_tree(s))
    }
    fn semantic_prop() -> &'static str {
        "C05"
    }
    fn is_ctx_path(path: &str) -> bool {
        if path.starts_with("keys") {
            return path.contains("][2]") || path.contains("][3]");
        }
        if path.starts_with("values") {
            return path.contains("][2]") || path.contains("][3]");
        }
        if path.starts_with("iter") {
            return path.contains("][3]") || path.contains("][4]");
        }
        path.contains(".add") || path.contains(".rm") || path.starts_with("read_ctx") || path.starts_with("derived")
    }
    fn sigs(sys: &Sys<Self>) -> Vec<String> {
        let mut v = vec![];
        let has_rm = sys.ops.iter().any(|o| matches!(&o.op, Op::Rm { .. }));
        if has_rm {
            v.push("key_rm".to_string());
        }
        if sys.feats.merge {
            v.push("merge".to_string());
        }
        if has_rm || sys.feats.merge || sys.feats.noncausal {
            v.push("key_rm_or_merge_or_noncausal".to_string());
        }
        v
    }
}

fn reads_from(sem: &Value, clock: &Value, wit: &[Value], d: &Dims) -> Value {
    let ents = sem["entries"].as_array().unwrap();
    let mut get = vec![];
    let mut keys = vec![];
    let mut values = vec![];
    let mut iter = vec![];
    let mut len = 0u64;
    for k in 1..=d.k {
        let present = !ents[k - 1].is_null();
        let rm = if present { wit[k - 1].clone() } else { json!(vec![0u64; d.n]) };
        get.push(json!({"val": ents[k - 1], "add": clock, "rm": rm}));
        if present {
            len += 1;
            keys.push(json!([k as u64, clock, rm]));
            values.push(json!([ents[k - 1], clock, rm]));
            iter.push(json!([k as u64, ents[k - 1], clock, rm]));
        }
    }
    let n = clock.as_array().unwrap().len();
    let derived: Vec<Value> = (1..=n).map(|a| {
        let e = crate::eng_orswot::exp_derived(clock, a);
        let per_key: Vec<Value> = (1..=d.k).map(|_| e.clone()).collect();
        json!({"read_ctx": e, "len": e, "get": per_key})
    }).collect();
    let rmd: Vec<Value> = (1..=d.k).map(|k| if !ents[k - 1].is_null() { wit[k - 1].clone() } else { json!(vec![0u64; d.n]) }).collect();
    json!({
        "get": get, "keys": keys, "values": values, "iter": iter,
        "len": {"val": len, "add": clock, "rm": clock},
        "is_empty": {"val": len == 0, "add": clock, "rm": clock},
        "read_ctx": {"add": clock, "rm": clock},
        "derived_add": derived, "derived_rm": rmd,
    })
}

impl<V: MVal> crate::drive::Driveable for MapEng<V>
where
    <V as CmRDT>::Op: Clone + Debug + Serialize + DeserializeOwned + PartialEq,
    <V as CmRDT>::Validation: Debug,
    <V as CvRDT>::Validation: Debug,
{
    fn random_cmd(s: &Self::S, _r: usize, rng: &mut rand::rngs::StdRng, d: &Dims) -> Option<Value> {
        Some(<Map<u8, V, u8> as MVal>::random_cmd(s, rng, d))
    }
}

impl<V: MVal> MapEng<V>
where
    <V as CmRDT>::Op: Clone + Debug + Serialize + DeserializeOwned + PartialEq,
    <V as CmRDT>::Validation: Debug,
    <V as CvRDT>::Validation: Debug,
{
    fn reads_full_or_light(s: &Map<u8, V, u8>, d: &Dims, full: bool) -> Value {
        let n = d.n;
        let mut get = vec![];
        for k in 1..=d.k {
            let g = s.get(&(k as u8));
            get.push(json!({
                "val": match g.val { Some(x) => V::shown(&x, d), None => Value::Null },
                "add": clock_json(&g.add_clock, n), "rm": clock_json(&g.rm_clock, n)}));
        }
        let keys: Vec<Value> = s.keys().map(|c| json!([*c.val as u64, clock_json(&c.add_clock, n), clock_json(&c.rm_clock, n)])).collect();
        let values: Vec<Value> = s.values().map(|c| json!([V::shown(c.val, d), clock_json(&c.add_clock, n), clock_json(&c.rm_clock, n)])).collect();
        let iter: Vec<Value> = s.iter().map(|c| json!([*c.val.0 as u64, V::shown(c.val.1, d), clock_json(&c.add_clock, n), clock_json(&c.rm_clock, n)])).collect();
        let l = s.len();
        let e = s.is_empty();
        let rc = s.read_ctx();
        // the contexts derived from the reads (ctx.rs), for every actor, from a whole-map read and from per-key reads
        let mut derived = vec![];
        for a in 1..=(if full { n } else { 0 }) {
            let actor = a as u8;
            let c1 = s.read_ctx().derive_add_ctx(actor);
            let c2 = s.len().derive_add_ctx(actor);
            let per_key: Vec<Value> = (1..=d.k).map(|k| { let c = s.get(&(k as u8)).derive_add_ctx(actor); json!([c.dot.actor, c.dot.counter, clock_json(&c.clock, n)]) }).collect();
            derived.push(json!({"read_ctx": [c1.dot.actor, c1.dot.counter, clock_json(&c1.clock, n)],
                                "len": [c2.dot.actor, c2.dot.counter, clock_json(&c2.clock, n)], "get": per_key}));
        }
        let rmd: Vec<Value> = (1..=d.k).map(|k| clock_json(&s.get(&(k as u8)).derive_rm_ctx().clock, n)).collect();
        let mut out = json!({"derived_add": derived, "derived_rm": rmd});
        let base = json!({
            "get": get, "keys": keys, "values": values, "iter": iter,
            "len": {"val": l.val, "add": clock_json(&l.add_clock, n), "rm": clock_json(&l.rm_clock, n)},
            "is_empty": {"val": e.val, "add": clock_json(&e.add_clock, n), "rm": clock_json(&e.rm_clock, n)},
            "read_ctx": {"add": clock_json(&rc.add_clock, n), "rm": clock_json(&rc.rm_clock, n)},
        });
        for (k, v) in base.as_object().unwrap() {
            out[k] = v.clone();
        }
        out
    }
}
