//! List<u8, u8> and GList<u8> bound to ListCrdt.tla / SysList.tla.

use crate::core::*;
use crate::tree::{to_tree, Tree};
use crate::vectors::ident_json;
use crdts::glist;
use crdts::list::{self, List};
use crdts::{CmRDT, CvRDT, GList};
use serde_json::{json, Value};

pub struct ListEng;
pub struct GListEng;

fn dot_marker(t: &Tree) -> Value {
    json!([t.field("actor").u(), t.field("counter").u()])
}
fn int_marker(t: &Tree) -> Value {
    json!(t.u())
}

fn list_proj(s: &List<u8, u8>, d: &Dims) -> Value {
    let t = to_tree(s);
    let seq: Vec<Value> = t
        .field("seq")
        .seq()
        .iter()
        .map(|e| {
            let e = e.seq();
            json!([ident_json(&e[0], &dot_marker), e[1].u()])
        })
        .collect();
    let mut z = false;
    let clock = clock_arr(t.field("clock"), d.n, &mut z);
    let mut o = json!({"seq": seq, "clock": clock});
    if z {
        o["zero_entry"] = json!(true);
    }
    o
}

fn list_op_proj(o: &list::Op<u8, u8>) -> Value {
    match o {
        list::Op::Insert { id, val } => json!({"kind": "ins", "id": ident_json(&to_tree(id), &dot_marker), "val": *val as u64}),
        list::Op::Delete { id, dot } => json!({"kind": "del", "id": ident_json(&to_tree(id), &dot_marker), "actor": dot.actor, "counter": dot.counter}),
    }
}

fn seq_reads(read: Vec<u64>, extra: Value) -> Value {
    let n = read.len();
    let mut o = json!({
        "read": read, "len": n, "is_empty": n == 0,
        "first": read.first(), "last": read.last(),
        "read_after_local_edit": read,
    });
    if let Value::Object(m) = extra {
        for (k, v) in m {
            o[k] = v;
        }
    }
    o
}

fn exp_seq_reads(a: &Value, with_positions: bool) -> Value {
    let read: Vec<u64> = a["seq"].as_array().unwrap().iter().map(|x| x.as_u64().unwrap()).collect();
    let vec = match a["vec"].as_array().and_then(|x| x.first()) {
        Some(v) => v.clone(),
        None => json!("ANY"),
    };
    let n = read.len();
    let mut o = json!({
        "read": read, "len": n, "is_empty": n == 0,
        "first": read.first(), "last": read.last(),
        "read_after_local_edit": vec,
    });
    if with_positions {
        let mut pos: Vec<Value> = read.iter().map(|x| json!(x)).collect();
        pos.push(Value::Null);
        o["position"] = json!(pos);
        o["consistent"] = json!(true);
    }
    o
}

impl Engine for ListEng {
    type S = List<u8, u8>;
    type O = list::Op<u8, u8>;
    const NAME: &'static str = "list";
    const HAS_MERGE: bool = false;

    fn new_state() -> Self::S {
        List::new()
    }
    fn gen(s: &Self::S, actor: u8, cmd: &Value) -> Self::O {
        let i = cmd["i"].as_u64().unwrap() as usize;
        let v = cmd["v"].as_u64().unwrap() as u8;
        match cmd["c"].as_str().unwrap() {
            "ins" => s.insert_index(i, v, actor),
            "app" => s.append(v, actor),
            "del" => match s.delete_index(i, actor) {
                Some(op) => op,
                None => crate::core::lib_fault("delete_index returned None for an index the history says exists"),
            },
            c => panic!("unknown list command {}", c),
        }
    }
    fn apply(s: &mut Self::S, op: Self::O) {
        s.apply(op)
    }
    fn proj(s: &Self::S, d: &Dims) -> Value {
        list_proj(s, d)
    }
    fn canon_b(b: &Value) -> Value {
        b.clone()
    }
    fn reads(s: &Self::S, _d: &Dims) -> Value {
        let read: Vec<u64> = s.read::<Vec<&u8>>().into_iter().map(|x| *x as u64).collect();
        let n = read.len();
        let mut pos: Vec<Value> = (0..n).map(|i| json!(s.position(i).map(|x| *x as u64))).collect();
        pos.push(json!(s.position(n).map(|x| *x as u64)));
        // the other read entry points must agree with read()
        let it: Vec<u64> = s.iter().map(|x| *x as u64).collect();
        let ents: Vec<u64> = s.iter_entries().map(|(_, v)| *v as u64).collect();
        let ok_entries = s.iter_entries().enumerate().all(|(ix, (id, v))| s.position_entry(id) == Some(ix) && s.get(id) == Some(v));
        // out-of-range requests: delete_index(len) builds no op, position(len) is None, unknown ids are absent
        let oob = s.delete_index(n, 1).is_none() && s.position(n).is_none();
        let consistent = oob && it == read && ents == read && ok_entries && s.len() == n && s.is_empty() == (n == 0)
            && s.first().map(|x| *x as u64) == read.first().copied() && s.last().map(|x| *x as u64) == read.last().copied();
        seq_reads(read, json!({"position": pos, "consistent": consistent}))
    }
    fn exp_reads(a: &Value, _d: &Dims) -> Value {
        exp_seq_reads(a, true)
    }
    fn canon_from_a(_a: &Value, _d: &Dims) -> Option<Value> {
        None
    }
    fn op_proj(o: &Self::O, _d: &Dims) -> Value {
        list_op_proj(o)
    }
    fn canon_op(o: &Value) -> Value {
        o.clone()
    }
    fn op_a_view(o: &Value) -> Value {
        // WHICH identifier an insert gets is the allocation strategy (layer B, Identifier::between); layer A only
        // says what is inserted / which element is deleted.  A wrong identifier shows up in the reads (C12, C13).
        if o["kind"] == "ins" {
            json!({"kind": "ins", "val": o["val"], "tag": o["id"].as_array().and_then(|a| a.last()).map(|n| n[1].clone())})
        } else {
            o.clone()
        }
    }
    fn validate_op(s: &Self::S, o: &Self::O) -> String {
        match s.validate_op(o) {
            Ok(()) => "Ok".into(),
            Err(_) => "DotRange".into(),
        }
    }
    fn eq(a: &Self::S, b: &Self::S) -> bool {
        a == b
    }
    fn ser_state(s: &Self::S) -> Result<String, String> {
        serde_json::to_string(s).map_err(|e| e.to_string())
    }
    fn de_state(t: &str) -> Result<Self::S, String> {
        serde_json::from_str(t).map_err(|e| e.to_string())
    }
    fn ser_op(o: &Self::O) -> Result<String, String> {
        serde_json::to_string(o).map_err(|e| e.to_string())
    }
    fn de_op(t: &str) -> Result<Self::O, String> {
        serde_json::from_str(t).map_err(|e| e.to_string())
    }
    fn semantic_prop() -> &'static str {
        "C12"
    }
    fn gen_op_props() -> Vec<&'static str> {
        vec!["C12", "C13", "C14"]
    }
    fn semantic_prop_for(path: &str) -> &'static str {
        if path.starts_with("read_after_local_edit") {
            "C13"
        } else {
            "C12"
        }
    }
    fn is_ctx_path(_p: &str) -> bool {
        false
    }
}

impl Engine for GListEng {
    type S = GList<u8>;
    type O = glist::Op<u8>;
    const NAME: &'static str = "glist";

    fn new_state() -> Self::S {
        GList::new()
    }
    fn gen(s: &Self::S, _actor: u8, cmd: &Value) -> Self::O {
        let i = cmd["i"].as_u64().unwrap() as usize;
        let v = cmd["v"].as_u64().unwrap() as u8;
        match cmd["c"].as_str().unwrap() {
            "ins" => s.insert(i, v),
            "after" => s.insert_after(s.get(i - 1), v),
            "before" => s.insert_before(s.get(i - 1), v),
            c => panic!("unknown glist command {}", c),
        }
    }
    fn apply(s: &mut Self::S, op: Self::O) {
        s.apply(op)
    }
    fn merge(s: &mut Self::S, o: Self::S) {
        s.merge(o)
    }
    fn proj(s: &Self::S, _d: &Dims) -> Value {
        let ids: Vec<Value> = to_tree(s).seq().iter().map(|id| ident_json(id, &int_marker)).collect();
        json!({"list": ids})
    }
    fn canon_b(b: &Value) -> Value {
        b.clone()
    }
    fn reads(s: &Self::S, _d: &Dims) -> Value {
        let read: Vec<u64> = s.read::<Vec<&u8>>().into_iter().map(|x| *x as u64).collect();
        let n = read.len();
        let via_get: Vec<u64> = (0..n).filter_map(|i| s.get(i).map(|id| *id.value() as u64)).collect();
        let consistent = via_get == read && s.len() == n && s.is_empty() == (n == 0) && s.get(n).is_none()
            && s.first().map(|id| *id.value() as u64) == read.first().copied()
            && s.last().map(|id| *id.value() as u64) == read.last().copied();
        seq_reads(read, json!({"consistent": consistent}))
    }
    fn exp_reads(a: &Value, _d: &Dims) -> Value {
        let mut o = exp_seq_reads(a, false);
        o["consistent"] = json!(true);
        o
    }
    fn canon_from_a(_a: &Value, _d: &Dims) -> Option<Value> {
        None
    }
    fn op_proj(o: &Self::O, _d: &Dims) -> Value {
        match o {
            glist::Op::Insert { id } => json!({"id": ident_json(&to_tree(id), &int_marker)}),
        }
    }
    fn canon_op(o: &Value) -> Value {
        o.clone()
    }
    fn op_a_view(o: &Value) -> Value {
        // layer A: the element inserted (the marker of the identifier's last node), not the identifier itself
        json!({"elem": o["id"].as_array().and_then(|a| a.last()).map(|n| n[1].clone())})
    }
    fn validate_op(s: &Self::S, o: &Self::O) -> String {
        match s.validate_op(o) {
            Ok(()) => "Ok".into(),
            Err(_) => "Err".into(),
        }
    }
    fn validate_merge(a: &Self::S, b: &Self::S) -> String {
        match a.validate_merge(b) {
            Ok(()) => "Ok".into(),
            Err(_) => "Err".into(),
        }
    }
    fn eq(a: &Self::S, b: &Self::S) -> bool {
        a == b
    }
    fn ser_state(s: &Self::S) -> Result<String, String> {
        serde_json::to_string(s).map_err(|e| e.to_string())
    }
    fn de_state(t: &str) -> Result<Self::S, String> {
        serde_json::from_str(t).map_err(|e| e.to_string())
    }
    fn ser_op(o: &Self::O) -> Result<String, String> {
        serde_json::to_string(o).map_err(|e| e.to_string())
    }
    fn de_op(t: &str) -> Result<Self::O, String> {
        serde_json::from_str(t).map_err(|e| e.to_string())
    }
    fn semantic_prop() -> &'static str {
        "C13"
    }
    fn gen_op_props() -> Vec<&'static str> {
        vec!["C13", "C14"]
    }
    fn is_ctx_path(_p: &str) -> bool {
        false
    }
}

impl crate::drive::Driveable for ListEng {
    fn random_cmd(s: &Self::S, _r: usize, rng: &mut rand::rngs::StdRng, _d: &Dims) -> Option<Value> {
        use rand::Rng;
        // the acting actor is not known here: the value is made unique from the list's own clock total
        // (10 * ops seen + a random digit would collide); the driver passes the actor through gen(), so the
        // value only has to be unique per history: use the total number of dots the replica has seen + a salt
        let t = to_tree(s);
        let seen: u64 = t.field("clock").map().iter().map(|(_, c)| c.u()).sum();
        let v = (seen * 7 + rng.gen_range(0..7u64)) % 250 + 1;
        let n = s.len();
        let roll: f64 = rng.gen();
        Some(if roll < 0.55 {
            json!({"c": "ins", "i": rng.gen_range(0..=n + 1), "v": v})
        } else if roll < 0.7 {
            json!({"c": "app", "i": 0, "v": v})
        } else if n > 0 {
            json!({"c": "del", "i": rng.gen_range(0..n), "v": 0})
        } else {
            json!({"c": "app", "i": 0, "v": v})
        })
    }
}

impl crate::drive::Driveable for GListEng {
    fn random_cmd(s: &Self::S, _r: usize, rng: &mut rand::rngs::StdRng, _d: &Dims) -> Option<Value> {
        use rand::Rng;
        let n = s.len();
        // elements are made unique per insert: 40 * replica + the replica's own insert number
        let own = s.read::<Vec<&u8>>().into_iter().filter(|x| (**x as usize) / 40 == _r).count();
        let v = (40 * _r + own + 1) as u8;
        let roll: f64 = rng.gen();
        Some(if roll < 0.5 || n == 0 {
            json!({"c": "ins", "i": rng.gen_range(0..=n), "v": v})
        } else if roll < 0.75 {
            json!({"c": "after", "i": rng.gen_range(1..=n), "v": v})
        } else {
            json!({"c": "before", "i": rng.gen_range(1..=n), "v": v})
        })
    }
}

// ---------------------------------------------------------------------------
// Supplementary depth probe.  NOT bound to the TLA+ specification: after k inserts into one gap an identifier holds a
// rational with denominator 2^k, and TLC's 32-bit integers cannot follow past k = 30 (DESIGN 9).  One replica, two
// appends, then `n` inserts into the same gap and `n` deletes out of it; after every step the replica and the op go
// through serde_json (the persisted twin of C19) and both are compared with a Vec (the sequential model of C13).
// ---------------------------------------------------------------------------
pub fn deep_gap_probe(n: usize) -> Value {
    use crdts::CmRDT;
    let r = crate::core::catch(|| {
        let mut live: List<u8, u8> = List::new();
        let mut twin: List<u8, u8> = List::new();
        let mut model: Vec<u8> = vec![];
        let total = 2 + 2 * n;
        for k in 0..total {
            let op = if k < 2 {
                model.push(k as u8 + 1);
                live.append(k as u8 + 1, 1u8)
            } else if k < 2 + n {
                let v = (k % 200) as u8 + 3;
                model.insert(1, v);
                live.insert_index(1, v, 1u8)
            } else {
                model.remove(1);
                match live.delete_index(1, 1u8) {
                    Some(op) => op,
                    None => return json!({"ok": false, "step": k + 1, "what": "delete_index(1) returned None on a list of more than two elements", "props": ["C13"]}),
                }
            };
            let op2: crdts::list::Op<u8, u8> = match serde_json::to_string(&op).map_err(|e| e.to_string()).and_then(|t| serde_json::from_str(&t).map_err(|e| e.to_string())) {
                Ok(o) => o,
                Err(e) => return json!({"ok": false, "step": k + 1, "what": format!("the op does not survive serde_json: {}", e), "props": ["C19"]}),
            };
            live.apply(op);
            twin.apply(op2);
            twin = match serde_json::to_string(&twin).map_err(|e| e.to_string()).and_then(|t| serde_json::from_str(&t).map_err(|e| e.to_string())) {
                Ok(t) => t,
                Err(e) => return json!({"ok": false, "step": k + 1, "what": format!("the replica does not survive serde_json: {}", e), "props": ["C19"]}),
            };
            let lr: Vec<u8> = live.read::<Vec<&u8>>().into_iter().cloned().collect();
            let tr: Vec<u8> = twin.read::<Vec<&u8>>().into_iter().cloned().collect();
            if lr != model {
                return json!({"ok": false, "step": k + 1, "what": "the edit did not land where the sequential-list model puts it", "real": lr, "model": model, "props": ["C13", "C12"]});
            }
            if tr != model || twin != live {
                return json!({"ok": false, "step": k + 1, "what": "the replica that went through serde_json after every step differs from the one that did not", "real": tr, "model": model, "props": ["C19"]});
            }
        }
        json!({"ok": true, "steps": total})
    });
    match r {
        Ok(v) => v,
        Err(e) => json!({"ok": false, "step": 0, "what": format!("PANIC {}", e), "props": ["C12", "C13"]}),
    }
}
