//! MerkleReg<Vec<u8>> bound to Merkle.tla / SysMerkle.tla.  The model names a
//! node by its structure [v, ch]; the harness keeps the bijection between these
//! names and the real SHA3 hashes.

use crate::core::*;
use crate::tree::{to_tree, Tree};
use crdts::merkle_reg::{Hash, MerkleReg, Node};
use crdts::{CmRDT, CvRDT};
use serde_json::{json, Value};
use std::cell::RefCell;
use std::collections::{BTreeSet, HashMap};

pub struct MerkleEng;
type S = MerkleReg<Vec<u8>>;
type O = Node<Vec<u8>>;

thread_local! {
    static NAMES: RefCell<HashMap<Hash, String>> = RefCell::new(HashMap::new());
}

/// canonical textual name of a model node: "v(child,child,...)" with sorted children
pub fn canon_name(j: &Value) -> String {
    let mut ch: Vec<String> = j["ch"].as_array().unwrap().iter().map(canon_name).collect();
    ch.sort();
    format!("{}({})", j["v"].as_u64().unwrap(), ch.join(","))
}

/// the real node of a model node (registers every name on the way)
fn real_node(j: &Value) -> O {
    let children: BTreeSet<Hash> = j["ch"].as_array().unwrap().iter().map(|c| real_node(c).hash()).collect();
    let n = Node { children, value: vec![j["v"].as_u64().unwrap() as u8] };
    let h = n.hash();
    NAMES.with(|m| {
        m.borrow_mut().entry(h).or_insert_with(|| canon_name(j));
    });
    n
}

fn name_of(h: &Hash) -> String {
    NAMES.with(|m| m.borrow().get(h).cloned().unwrap_or_else(|| format!("UNKNOWN-HASH-{:02x}{:02x}", h[0], h[1])))
}

fn hash_of_tree(t: &Tree) -> Hash {
    let mut h = [0u8; 32];
    match t {
        Tree::Seq(v) => {
            for (i, b) in v.iter().enumerate() {
                h[i] = b.u() as u8;
            }
        }
        Tree::Bytes(b) => h.copy_from_slice(b),
        _ => panic!("hash tree {:?}", t),
    }
    h
}

/// parse a canonical name "v(child,child,...)" back into the spec's structural form {v, ch:[...]}
pub fn struct_of_name(name: &str) -> Value {
    fn parse(b: &[u8], i: &mut usize) -> Value {
        let mut v = 0u64;
        while *i < b.len() && b[*i].is_ascii_digit() {
            v = v * 10 + (b[*i] - b'0') as u64;
            *i += 1;
        }
        let mut ch = vec![];
        if *i < b.len() && b[*i] == b'(' {
            *i += 1;
            while *i < b.len() && b[*i] != b')' {
                ch.push(parse(b, i));
                if *i < b.len() && b[*i] == b',' {
                    *i += 1;
                }
            }
            *i += 1;
        }
        json!({"v": v, "ch": ch})
    }
    let mut i = 0;
    parse(name.as_bytes(), &mut i)
}

fn names_sorted(mut v: Vec<String>) -> Value {
    v.sort();
    json!(v)
}

fn set_names(j: &Value) -> Vec<String> {
    j.as_array().unwrap().iter().map(canon_name).collect()
}

impl Engine for MerkleEng {
    type S = S;
    type O = O;
    const NAME: &'static str = "merkle";

    fn new_state() -> S {
        MerkleReg::new()
    }
    fn gen(s: &S, _actor: u8, cmd: &Value) -> O {
        // children = the nodes named by the command; when the command says "the heads read"
        // the model has put exactly those nodes there, and we check that read() agrees in `reads`
        let children: BTreeSet<Hash> = cmd["on"].as_array().unwrap().iter().map(|c| real_node(c).hash()).collect();
        let v = cmd["v"].as_u64().unwrap() as u8;
        let node = s.write(vec![v], children);
        let _ = real_node(&json!({"v": v, "ch": cmd["on"]}));
        node
    }
    fn apply(s: &mut S, op: O) {
        s.apply(op)
    }
    fn merge(s: &mut S, o: S) {
        s.merge(o)
    }
    fn proj(s: &S, _d: &Dims) -> Value {
        let t = to_tree(s);
        let roots: Vec<String> = t.field("roots").seq().iter().map(|h| name_of(&hash_of_tree(h))).collect();
        let dag: Vec<String> = t.field("dag").seq().iter().map(|p| name_of(&hash_of_tree(&p.seq()[0]))).collect();
        let orphans: Vec<String> = t.field("orphans").seq().iter().map(|p| name_of(&hash_of_tree(&p.seq()[0]))).collect();
        // every stored node must sit under its own hash
        let keyed_ok = t.field("dag").seq().iter().chain(t.field("orphans").seq().iter()).all(|p| {
            let key = hash_of_tree(&p.seq()[0]);
            let n = p.seq()[1].clone();
            let children: BTreeSet<Hash> = n.field("children").seq().iter().map(hash_of_tree).collect();
            let value: Vec<u8> = n.field("value").seq().iter().map(|b| b.u() as u8).collect();
            Node { children, value }.hash() == key
        });
        json!({"roots": names_sorted(roots), "dag": names_sorted(dag), "orphans": names_sorted(orphans), "keyed_by_own_hash": keyed_ok})
    }
    fn trace_post(s: &S, d: &Dims) -> Value {
        let p = Self::proj(s, d);
        let conv = |k: &str| -> Vec<Value> { p[k].as_array().unwrap().iter().map(|n| struct_of_name(n.as_str().unwrap())).collect() };
        json!({"roots": conv("roots"), "dag": conv("dag"), "orphans": conv("orphans")})
    }
    fn canon_b(b: &Value) -> Value {
        json!({"roots": names_sorted(set_names(&b["roots"])), "dag": names_sorted(set_names(&b["dag"])),
               "orphans": names_sorted(set_names(&b["orphans"])), "keyed_by_own_hash": true})
    }
    fn reads(s: &S, _d: &Dims) -> Value {
        let content = s.read();
        let read: Vec<String> = content.hashes().iter().map(name_of).collect();
        let mut values: Vec<u64> = content.values().map(|v| v[0] as u64).collect();
        values.sort();
        let via_nodes: Vec<String> = content.hashes_and_nodes().map(|(h, n)| {
            assert!(n.hash() == h);
            name_of(&h)
        }).collect();
        let mut children = serde_json::Map::new();
        let mut parents = serde_json::Map::new();
        let t = to_tree(s);
        let mut all_known = true;
        for p in t.field("dag").seq().iter() {
            let h = hash_of_tree(&p.seq()[0]);
            children.insert(name_of(&h), names_sorted(s.children(h).hashes().iter().map(name_of).collect()));
            parents.insert(name_of(&h), names_sorted(s.parents(h).hashes().iter().map(name_of).collect()));
            all_known &= s.node(h).is_some();
        }
        for p in t.field("orphans").seq().iter() {
            let h = hash_of_tree(&p.seq()[0]);
            all_known &= s.node(h).is_some() && s.children(h).is_empty();
        }
        json!({
            "read": names_sorted(read), "values": values, "is_empty": content.is_empty(),
            "num_nodes": s.num_nodes(), "num_orphans": s.num_orphans(),
            "children": children, "parents": parents,
            "consistent": all_known && names_sorted(via_nodes) == names_sorted(content.hashes().iter().map(name_of).collect()) && s.all_nodes().count() == s.num_nodes(),
        })
    }
    fn exp_reads(a: &Value, _d: &Dims) -> Value {
        let heads = a["heads"].as_array().unwrap();
        let visible = a["visible"].as_array().unwrap();
        let vis_names: BTreeSet<String> = visible.iter().map(canon_name).collect();
        let mut values: Vec<u64> = heads.iter().map(|n| n["v"].as_u64().unwrap()).collect();
        values.sort();
        let mut children = serde_json::Map::new();
        let mut parents = serde_json::Map::new();
        for n in visible {
            let nm = canon_name(n);
            let ch: Vec<String> = n["ch"].as_array().unwrap().iter().map(canon_name).filter(|c| vis_names.contains(c)).collect();
            children.insert(nm.clone(), names_sorted(ch));
            let ps: Vec<String> = visible.iter().filter(|p| p["ch"].as_array().unwrap().iter().any(|c| canon_name(c) == nm)).map(canon_name).collect();
            parents.insert(nm, names_sorted(ps));
        }
        json!({
            "read": names_sorted(heads.iter().map(canon_name).collect()), "values": values, "is_empty": heads.is_empty(),
            "num_nodes": visible.len(), "num_orphans": a["orphans"].as_array().unwrap().len(),
            "children": children, "parents": parents, "consistent": true,
        })
    }
    fn canon_from_a(a: &Value, _d: &Dims) -> Option<Value> {
        Some(json!({"roots": names_sorted(set_names(&a["heads"])), "dag": names_sorted(set_names(&a["visible"])),
                    "orphans": names_sorted(set_names(&a["orphans"])), "keyed_by_own_hash": true}))
    }
    fn op_proj(o: &O, _d: &Dims) -> Value {
        json!(name_of(&o.hash()))
    }
    fn canon_op(o: &Value) -> Value {
        json!(canon_name(o))
    }
    fn validate_op(s: &S, o: &O) -> String {
        match s.validate_op(o) {
            Ok(()) => "Ok".into(),
            Err(_) => "MissingChild".into(),
        }
    }
    fn validate_merge(a: &S, b: &S) -> String {
        match a.validate_merge(b) {
            Ok(()) => "Ok".into(),
            Err(_) => "Err".into(),
        }
    }
    fn eq(a: &S, b: &S) -> bool {
        a == b
    }
    fn ser_state(s: &S) -> Result<String, String> {
        serde_json::to_string(s).map_err(|e| e.to_string())
    }
    fn de_state(t: &str) -> Result<S, String> {
        serde_json::from_str(t).map_err(|e| e.to_string())
    }
    fn ser_op(o: &O) -> Result<String, String> {
        serde_json::to_string(o).map_err(|e| e.to_string())
    }
    fn de_op(t: &str) -> Result<O, String> {
        serde_json::from_str(t).map_err(|e| e.to_string())
    }
    fn has_pending(s: &S) -> bool {
        s.num_orphans() > 0
    }
    fn semantic_prop() -> &'static str {
        "C15"
    }
    fn gen_op_props() -> Vec<&'static str> {
        vec!["C15"]
    }
    fn is_ctx_path(_p: &str) -> bool {
        false
    }
}

impl crate::drive::Driveable for MerkleEng {
    fn random_cmd(s: &S, _r: usize, rng: &mut rand::rngs::StdRng, d: &Dims) -> Option<Value> {
        use rand::Rng;
        let v = rng.gen_range(1..=d.m.max(1)) as u64;
        let p = Self::proj(s, d);
        let pick: Vec<Value> = if rng.gen_bool(0.7) {
            // on top of the heads read
            s.read().hashes().iter().map(|h| struct_of_name(&name_of(h))).collect()
        } else {
            // on an arbitrary subset of the visible nodes
            p["dag"].as_array().unwrap().iter().filter(|_| rng.gen_bool(0.4)).map(|n| struct_of_name(n.as_str().unwrap())).collect()
        };
        Some(json!({"c": "write", "v": v, "on": pick}))
    }
}

// ---------------------------------------------------------------------------
// Supplementary width probe.  NOT bound to the TLA+ specification: a node with w children needs w + 2 writes, far more
// than TLC enumerates (DESIGN 9).  One base node, w concurrent children of it, one node joining all of them.  For every
// choice k of the child that is still missing when the join arrives (op path and merge path): the join must stay
// invisible (heads = the w - 1 children present), and become the only head once child k arrives -- the declarative
// reading of C15 (visible = causally complete, heads = visible nodes without a visible parent) on this one shape.
// ---------------------------------------------------------------------------
pub fn wide_node_probe(w: usize) -> Value {
    let r = crate::core::catch(|| {
        let author: S = MerkleReg::new();
        let base = author.write(vec![0u8, 0u8], BTreeSet::new());
        let kids: Vec<O> = (0..w).map(|i| author.write(vec![1u8, i as u8], std::iter::once(base.hash()).collect())).collect();
        let join = author.write(vec![2u8, 0u8], kids.iter().map(|k| k.hash()).collect());
        let heads = |s: &S| -> BTreeSet<Hash> { s.read().hashes() };
        for k in 0..w {
            let expect_before: BTreeSet<Hash> = kids.iter().enumerate().filter(|(i, _)| *i != k).map(|(_, n)| n.hash()).collect();
            let expect_after: BTreeSet<Hash> = std::iter::once(join.hash()).collect();
            // op path: everything but child k, then the join, then child k
            let mut a: S = MerkleReg::new();
            a.apply(base.clone());
            for (i, n) in kids.iter().enumerate() {
                if i != k {
                    a.apply(n.clone());
                }
            }
            a.apply(join.clone());
            let mut props: BTreeSet<&str> = BTreeSet::new();
            let mut what: Vec<String> = vec![];
            if heads(&a) != expect_before {
                props.extend(["C15", "C08"]);
                what.push(format!("op path: a node whose child is missing is visible or hides a head ({} heads, expected {})", heads(&a).len(), expect_before.len()));
            }
            // merge path: a replica that holds child k only (and the base) merges the state above, in both directions
            let mut b: S = MerkleReg::new();
            b.apply(base.clone());
            b.apply(kids[k].clone());
            let mut m = b.clone();
            m.merge(a.clone());
            let mut m2 = a.clone();
            m2.merge(b.clone());
            // the reference: every op applied in causal order
            let mut full: S = MerkleReg::new();
            full.apply(base.clone());
            for n in kids.iter() {
                full.apply(n.clone());
            }
            full.apply(join.clone());
            a.apply(kids[k].clone());
            if heads(&a) != expect_after {
                props.extend(["C15", "C08"]);
                what.push(format!("op path: the parked node is not the only head after its last child arrived ({} heads)", heads(&a).len()));
            }
            if heads(&m) != expect_after || heads(&m2) != expect_after || m != full || m2 != full {
                props.extend(["C15", "C03", "C02"]);
                what.push(format!("merge path: merging the two halves differs from applying all ops ({} / {} heads, expected 1)", heads(&m).len(), heads(&m2).len()));
            }
            if heads(&full) != expect_after {
                props.extend(["C15", "C01"]);
                what.push("all ops in causal order: the join is not the only head".to_string());
            }
            if !props.is_empty() {
                return json!({"ok": false, "missing_child": k, "width": w, "what": what, "props": props.into_iter().collect::<Vec<&str>>()});
            }
        }
        json!({"ok": true, "width": w, "cases": w})
    });
    match r {
        Ok(v) => v,
        Err(e) => json!({"ok": false, "what": format!("PANIC {}", e), "props": ["C15"]}),
    }
}
