mod core;
mod eng_orswot;
mod tree;

use crate::core::*;
use serde_json::{json, Value};
use std::io::{BufRead, BufReader, Write};

fn replay<E: Engine>(dump: &str, out: &str, known: &Known, opts: ReplayOpts) {
    let f = std::fs::File::open(dump).expect("dump file");
    let rd = BufReader::with_capacity(1 << 20, f);
    let mut rp: Replayer<E> = Replayer::new(known, opts);
    let mut bad_lines = 0u64;
    for line in rd.lines() {
        let line = line.expect("read");
        if !line.starts_with("<<\"E\"") {
            continue;
        }
        match parse_dump_line(&line) {
            Some(v) => rp.line(&v),
            None => bad_lines += 1,
        }
    }
    if bad_lines > 0 {
        rp.rep.errors.push(format!("{} unparsable dump lines", bad_lines));
    }
    let mut o = rp.rep.to_json();
    o["engine"] = json!(E::NAME);
    o["conv_classes"] = json!(rp.conv.len());
    let mut w = std::fs::File::create(out).expect("out file");
    w.write_all(serde_json::to_string_pretty(&o).unwrap().as_bytes()).unwrap();
}

fn main() {
    // panics of the library are caught and treated as observations; keep stderr quiet
    std::panic::set_hook(Box::new(|_| {}));
    let args: Vec<String> = std::env::args().collect();
    if args.len() < 2 {
        eprintln!("usage: harness replay <engine> <dump> <out.json> <known_findings.json> [--persist] [--no-oblig] [--laws]");
        std::process::exit(2);
    }
    match args[1].as_str() {
        "replay" => {
            let engine = &args[2];
            let dump = &args[3];
            let out = &args[4];
            let known = Known::load(&args[5]);
            let flags: Vec<&str> = args[6..].iter().map(|s| s.as_str()).collect();
            let opts = ReplayOpts {
                engine_cfg: String::new(),
                obligations: !flags.contains(&"--no-oblig"),
                laws: flags.contains(&"--laws"),
                persist: flags.contains(&"--persist"),
                max_samples: 5,
            };
            match engine.as_str() {
                "orswot" => replay::<eng_orswot::OrswotEng>(dump, out, &known, opts),
                e => {
                    eprintln!("unknown engine {}", e);
                    std::process::exit(2);
                }
            }
        }
        _ => {
            eprintln!("unknown subcommand");
            std::process::exit(2);
        }
    }
    let _: Value = json!(null);
}
