mod core;
mod drive;
mod eng_list;
mod eng_map;
mod eng_merkle;
mod eng_mvreg;
mod eng_orswot;
mod eng_simple;
mod tree;
mod vectors;

use crate::core::*;
use serde_json::{json, Value};
use std::io::{BufRead, BufReader, Write};
use std::sync::atomic::{AtomicBool, AtomicU64, Ordering};

/// seconds without progress on one line / vector / driver call after which the call is reported as a hang
pub fn hang_limit() -> u64 {
    std::env::var("HARNESS_HANG_SECS").ok().and_then(|v| v.parse().ok()).unwrap_or(120)
}

fn replay<E: Engine>(dump: &str, out: &str, known: &Known, opts: ReplayOpts) {
    let f = std::fs::File::open(dump).expect("dump file");
    let rd = BufReader::with_capacity(1 << 20, f);
    let lines: Vec<String> = rd.lines().map(|l| l.expect("read")).filter(|l| l.starts_with("<<\"E\"")).collect();
    let nthreads: usize = std::env::var("HARNESS_THREADS").ok().and_then(|v| v.parse().ok()).unwrap_or(8).max(1);
    let chunk = (lines.len() + nthreads - 1) / nthreads.max(1);
    let mut parts: Vec<(Report, std::collections::HashMap<String, ConvEntry>, u64)> = vec![];
    // watchdog: a library call that does not return is an observation ("hang"), not a tool failure.  Each worker
    // publishes the index of the line it is replaying; a line normally takes micro- to milliseconds.
    let nparts = (lines.len() + chunk.max(1) - 1) / chunk.max(1);
    let cur: Vec<AtomicU64> = (0..nparts).map(|_| AtomicU64::new(u64::MAX)).collect();
    let stop = AtomicBool::new(false);
    let mut failed = false;
    let hang_secs = hang_limit();
    std::thread::scope(|sc| {
        let mut hs = vec![];
        for (ti, part) in lines.chunks(chunk.max(1)).enumerate() {
            let o = opts.clone();
            let cur = &cur;
            hs.push(sc.spawn(move || {
                // (the slot is released even if this thread dies of a harness panic: that is a tool failure, not a hang)
                struct Release<'a>(&'a AtomicU64);
                impl<'a> Drop for Release<'a> {
                    fn drop(&mut self) {
                        self.0.store(u64::MAX, Ordering::Relaxed);
                    }
                }
                let _release = Release(&cur[ti]);
                let mut rp: Replayer<E> = Replayer::new(known, o);
                let mut bad = 0u64;
                for (li, line) in part.iter().enumerate() {
                    cur[ti].store((ti * chunk.max(1) + li) as u64, Ordering::Relaxed);
                    match parse_dump_line(line) {
                        Some(v) => {
                            // a panic that escapes the per-call guards (a read of the replica, an obligation) is the library's
                            if let Err(e) = crate::core::catch(|| rp.line(&v)) {
                                rp.rep.add("violation", &[E::semantic_prop()], E::NAME, "panic", json!(format!("PANIC while reading the replica after this history: {}", e)),
                                           json!("no panic"), Value::Null, &v["h"], Value::Null);
                            }
                        }
                        None => bad += 1,
                    }
                }
                cur[ti].store(u64::MAX, Ordering::Relaxed);
                (rp.rep, rp.conv, bad)
            }));
        }
        let (cur, stop, lines) = (&cur, &stop, &lines);
        sc.spawn(move || {
            let mut seen: Vec<(u64, std::time::Instant)> = cur.iter().map(|c| (c.load(Ordering::Relaxed), std::time::Instant::now())).collect();
            while !stop.load(Ordering::Relaxed) {
                std::thread::sleep(std::time::Duration::from_millis(500));
                for (i, c) in cur.iter().enumerate() {
                    let v = c.load(Ordering::Relaxed);
                    if v != seen[i].0 {
                        seen[i] = (v, std::time::Instant::now());
                    } else if v != u64::MAX && seen[i].1.elapsed().as_secs() >= hang_secs {
                        let h = parse_dump_line(&lines[v as usize]).map(|l| l["h"].clone()).unwrap_or(Value::Null);
                        let mut rep = Report::default();
                        rep.add("violation", &[E::semantic_prop(), "C01"], E::NAME, "hang",
                                json!(format!("a call made while replaying this history did not return within {} s", hang_secs)),
                                json!("every call returns"), Value::Null, &h, Value::Null);
                        for r in rep.records.iter_mut() {
                            r["replay_flags"] = json!(std::env::args().skip(6).collect::<Vec<String>>());
                            r["harness_engine"] = json!(std::env::args().nth(2).unwrap_or_default());
                        }
                        let mut o = rep.to_json();
                        o["engine"] = json!(E::NAME);
                        o["conv_classes"] = json!(0);
                        o["hang"] = json!(true);
                        std::fs::write(out, serde_json::to_string_pretty(&o).unwrap()).expect("out file");
                        std::process::exit(0);
                    }
                }
            }
        });
        for h in hs {
            match h.join() {
                Ok(p) => parts.push(p),
                Err(_) => failed = true,
            }
        }
        stop.store(true, Ordering::Relaxed);
    });
    if failed {
        eprintln!("a replay thread of the harness panicked (a failure of the harness, e.g. a projection that no longer matches the library's private state)");
        std::process::exit(101);
    }
    // merge the per-thread reports; equal-knowledge classes are compared across threads too
    let mut total = Report::default();
    let mut conv: std::collections::HashMap<String, ConvEntry> = std::collections::HashMap::new();
    let mut bad_lines = 0;
    for (rep, cv, bad) in parts {
        total.absorb(rep);
        bad_lines += bad;
        for (k, e) in cv {
            match conv.get(&k) {
                Some(e0) => conv_compare::<E>(&mut total, known, e0, &e),
                None => {
                    conv.insert(k, e);
                }
            }
        }
    }
    if bad_lines > 0 {
        total.errors.push(format!("{} unparsable dump lines", bad_lines));
    }
    for r in total.records.iter_mut() {
        r["replay_flags"] = json!(std::env::args().skip(6).collect::<Vec<String>>());
        r["harness_engine"] = json!(std::env::args().nth(2).unwrap_or_default());
    }
    let mut o = total.to_json();
    o["engine"] = json!(E::NAME);
    o["conv_classes"] = json!(conv.len());
    let mut w = std::fs::File::create(out).expect("out file");
    w.write_all(serde_json::to_string_pretty(&o).unwrap().as_bytes()).unwrap();
}

/// re-execute the path of a recorded violation on the current tree, printing the real reads and state after every step
fn replay_one<E: Engine>(rec: &Value, flags: &[String]) {
    let fl: Vec<&str> = flags.iter().map(|s| s.as_str()).collect();
    let steps = rec["h"].as_array().cloned().unwrap_or_default();
    let mut n = 1usize;
    for a in steps.iter() {
        n = n.max(a[1].as_u64().unwrap_or(1) as usize);
        if a[0] == "mrg" {
            n = n.max(a[2].as_u64().unwrap_or(1) as usize);
        }
    }
    let d = Dims { n: n.max(flagval(&fl, "--n")).max(2), m: flagval(&fl, "--m").max(3), k: flagval(&fl, "--k").max(3) };
    let shared = fl.contains(&"--shared-actor");
    let actor_of = move |r: usize| if shared && r <= 2 { 1u8 } else { r as u8 };
    let mut sys: Sys<E> = Sys::new(d.n);
    println!("replaying {} steps on {} replicas (engine {})", steps.len(), d.n, E::NAME);
    for (i, a) in steps.iter().enumerate() {
        match sys.step(a, &actor_of) {
            Ok(who) => {
                if who > 0 {
                    let s = &sys.st[who - 1];
                    println!("step {:2} {}  ->  replica {} reads {}", i + 1, a, who, E::reads(s, &d));
                    if i + 1 == steps.len() {
                        println!("        internal state of replica {}: {}", who, E::proj(s, &d));
                    }
                } else {
                    println!("step {:2} {}", i + 1, a);
                }
            }
            Err(e) => {
                println!("step {:2} {}  ->  {}", i + 1, a, e);
                break;
            }
        }
    }
    println!("recorded observable : {}", rec["obs"]);
    println!("recorded real value : {}", rec["real"]);
    println!("expected (layer A)  : {}", rec["A"]);
    println!("model    (layer B)  : {}", rec["B"]);
    if !rec["extra"].is_null() {
        println!("context             : {}", rec["extra"]);
    }
}

fn vectors(kind: &str, dump: &str, out: &str, known: &Known) {
    let f = std::fs::File::open(dump).expect("dump file");
    let rd = BufReader::with_capacity(1 << 20, f);
    let mut rep = Report::default();
    // watchdog (see replay): the current vector is published before the library is called on it
    let curv: std::sync::Arc<std::sync::Mutex<(u64, String)>> = std::sync::Arc::new(std::sync::Mutex::new((0, String::new())));
    {
        let (curv, kind, out) = (curv.clone(), kind.to_string(), out.to_string());
        let hang_secs = hang_limit();
        std::thread::spawn(move || {
            let mut seen = (0u64, std::time::Instant::now());
            loop {
                std::thread::sleep(std::time::Duration::from_millis(500));
                let (n, line) = { let g = curv.lock().unwrap(); (g.0, g.1.clone()) };
                if n != seen.0 {
                    seen = (n, std::time::Instant::now());
                } else if n != 0 && seen.1.elapsed().as_secs() >= hang_secs {
                    let h = parse_dump_line(&line).unwrap_or(Value::Null);
                    let mut rep = Report::default();
                    let prop = if kind == "clocks" { "C10" } else { "C14" };
                    rep.add("violation", &[prop], &kind, "hang",
                            json!(format!("a call on this vector did not return within {} s", hang_secs)), json!("every call returns"), Value::Null, &h, Value::Null);
                    let mut o = rep.to_json();
                    o["engine"] = json!(kind);
                    o["conv_classes"] = json!(0);
                    o["hang"] = json!(true);
                    std::fs::write(&out, serde_json::to_string_pretty(&o).unwrap()).expect("out file");
                    std::process::exit(0);
                }
            }
        });
    }
    for line in rd.lines() {
        let line = line.expect("read");
        if !line.starts_with("<<\"E\"") {
            continue;
        }
        {
            let mut g = curv.lock().unwrap();
            g.0 += 1;
            g.1.clear();
            g.1.push_str(&line);
        }
        match parse_dump_line(&line) {
            Some(v) => {
                let r = crate::core::catch(|| match kind {
                    "clocks" => vectors::clocks_line(&v, &mut rep, known),
                    "ident" => vectors::ident_line(&v, &mut rep, known),
                    _ => panic!("unknown vector engine"),
                });
                if let Err(e) = r {
                    rep.add("violation", &[if kind == "clocks" { "C10" } else { "C14" }], kind, "panic", json!(format!("PANIC on this vector: {}", e)),
                            json!("no panic"), Value::Null, &v, Value::Null);
                }
            }
            None => rep.errors.push("unparsable line".into()),
        }
    }
    curv.lock().unwrap().0 = 0; // done: the watchdog stands down
    let mut o = rep.to_json();
    o["engine"] = json!(kind);
    o["conv_classes"] = json!(0);
    let mut w = std::fs::File::create(out).expect("out file");
    w.write_all(serde_json::to_string_pretty(&o).unwrap().as_bytes()).unwrap();
}

fn flagval(flags: &[&str], name: &str) -> usize {
    flags.iter().position(|f| *f == name).and_then(|i| flags.get(i + 1)).and_then(|v| v.parse().ok()).unwrap_or(0)
}

fn main() {
    // panics of the library are caught and treated as observations; keep stderr quiet
    // (the hook only remembers where the panic was raised: core::catch tells the library's panics from the harness's own)
    std::panic::set_hook(Box::new(|info| {
        let f = info.location().map(|l| l.file().to_string()).unwrap_or_default();
        crate::core::LAST_PANIC_FILE.with(|l| *l.borrow_mut() = f);
    }));
    let args: Vec<String> = std::env::args().collect();
    if args.len() < 2 {
        eprintln!("usage: harness replay <engine> <dump> <out.json> <known_findings.json> [--persist] [--no-oblig] [--laws]");
        std::process::exit(2);
    }
    match args[1].as_str() {
        "replay" => {
            let engine = &args[2];
            let dump = &args[3];
            let out = &args[4];
            let known = Known::load(&args[5]);
            let flags: Vec<&str> = args[6..].iter().map(|s| s.as_str()).collect();
            let opts = ReplayOpts {
                engine_cfg: String::new(),
                obligations: !flags.contains(&"--no-oblig"),
                laws: flags.contains(&"--laws"),
                persist: flags.contains(&"--persist"),
                max_samples: 5,
                m: flagval(&flags, "--m"),
                k: flagval(&flags, "--k"),
                misuse: flags.contains(&"--misuse"),
                vm_only: flags.contains(&"--vm-only"),
                vop_only: flags.contains(&"--vop-only"),
                shared_actor: flags.contains(&"--shared-actor"),
            };
            match engine.as_str() {
                "orswot" => replay::<eng_orswot::OrswotEng>(dump, out, &known, opts),
                "mvreg" => replay::<eng_mvreg::MVRegEng>(dump, out, &known, opts),
                "merkle" => replay::<eng_merkle::MerkleEng>(dump, out, &known, opts),
                "list" => replay::<eng_list::ListEng>(dump, out, &known, opts),
                "glist" => replay::<eng_list::GListEng>(dump, out, &known, opts),
                "simple" => {
                    let i = flags.iter().position(|f| *f == "--kind").expect("--kind");
                    eng_simple::set_kind(flags[i + 1]);
                    replay::<eng_simple::SimpleEng>(dump, out, &known, opts)
                }
                "map_mv" => replay::<eng_map::MapEng<crdts::MVReg<u8, u8>>>(dump, out, &known, opts),
                "map_or" => replay::<eng_map::MapEng<crdts::Orswot<u8, u8>>>(dump, out, &known, opts),
                "map_map_mv" => replay::<eng_map::MapEng<crdts::Map<u8, crdts::MVReg<u8, u8>, u8>>>(dump, out, &known, opts),
                "map_map_or" => replay::<eng_map::MapEng<crdts::Map<u8, crdts::Orswot<u8, u8>, u8>>>(dump, out, &known, opts),
                "map_map_map_mv" => replay::<eng_map::MapEng<crdts::Map<u8, crdts::Map<u8, crdts::MVReg<u8, u8>, u8>, u8>>>(dump, out, &known, opts),
                e => {
                    eprintln!("unknown engine {}", e);
                    std::process::exit(2);
                }
            }
        }
        "replay-one" => {
            let txt = std::fs::read_to_string(&args[2]).expect("replay file");
            let v: Value = serde_json::from_str(&txt).expect("replay json");
            let rec = &v["record"];
            let flags: Vec<String> = rec["replay_flags"].as_array().map(|a| a.iter().filter_map(|x| x.as_str().map(|s| s.to_string())).collect()).unwrap_or_default();
            let eng = rec["harness_engine"].as_str().or(rec["engine"].as_str()).unwrap_or("").to_string();
            println!("property {}  verdict {}  props {}", v["property"], rec["verdict"], rec["props"]);
            match eng.as_str() {
                "orswot" => replay_one::<eng_orswot::OrswotEng>(rec, &flags),
                "mvreg" => replay_one::<eng_mvreg::MVRegEng>(rec, &flags),
                "map_mv" => replay_one::<eng_map::MapEng<crdts::MVReg<u8, u8>>>(rec, &flags),
                "map_or" => replay_one::<eng_map::MapEng<crdts::Orswot<u8, u8>>>(rec, &flags),
                "map_map_mv" => replay_one::<eng_map::MapEng<crdts::Map<u8, crdts::MVReg<u8, u8>, u8>>>(rec, &flags),
                "map_map_or" => replay_one::<eng_map::MapEng<crdts::Map<u8, crdts::Orswot<u8, u8>, u8>>>(rec, &flags),
                "map_map_map_mv" => replay_one::<eng_map::MapEng<crdts::Map<u8, crdts::Map<u8, crdts::MVReg<u8, u8>, u8>, u8>>>(rec, &flags),
                "list" => replay_one::<eng_list::ListEng>(rec, &flags),
                "glist" => replay_one::<eng_list::GListEng>(rec, &flags),
                "merkle" => replay_one::<eng_merkle::MerkleEng>(rec, &flags),
                "simple" => {
                    let i = flags.iter().position(|f| f == "--kind").expect("--kind in replay flags");
                    eng_simple::set_kind(&flags[i + 1]);
                    replay_one::<eng_simple::SimpleEng>(rec, &flags)
                }
                _ => {
                    // vector engines and trace events: the record itself is the complete case
                    println!("case: {}", rec);
                }
            }
        }
        "drive" => {
            // drive <engine> <out> <seed> [--n N --m M --k K --histories H --steps T --maxops O --regime R --merge --snap]
            let engine = &args[2];
            let out = &args[3];
            let seed: u64 = args[4].parse().expect("seed");
            let flags: Vec<&str> = args[5..].iter().map(|s| s.as_str()).collect();
            let fv = |name: &str, def: usize| -> usize { let v = flagval(&flags, name); if v == 0 { def } else { v } };
            let regime = flags.iter().position(|f| *f == "--regime").map(|i| flags[i + 1].to_string()).unwrap_or("causal".into());
            let o = drive::DriveOpts {
                seed, histories: fv("--histories", 20), steps: fv("--steps", 40), max_ops: fv("--maxops", 12),
                dims: Dims { n: fv("--n", 3), m: fv("--m", 2), k: fv("--k", 2) },
                regime, merge: flags.contains(&"--merge"), snap: flags.contains(&"--snap"),
            };
            match engine.as_str() {
                "orswot" => drive::drive::<eng_orswot::OrswotEng>(out, &o),
                "mvreg" => drive::drive::<eng_mvreg::MVRegEng>(out, &o),
                "simple" => {
                    let i = flags.iter().position(|f| *f == "--kind").expect("--kind");
                    eng_simple::set_kind(flags[i + 1]);
                    drive::drive::<eng_simple::SimpleEng>(out, &o)
                }
                "list" => {
                    let n = fv("--deep-gap", 0);
                    if n > 0 {
                        println!("{}", json!({"probe": "deep_gap", "n": n, "result": eng_list::deep_gap_probe(n)}));
                    }
                    drive::drive::<eng_list::ListEng>(out, &o)
                }
                "glist" => drive::drive::<eng_list::GListEng>(out, &o),
                "merkle" => {
                    let n = fv("--wide", 0);
                    if n > 0 {
                        println!("{}", json!({"probe": "wide_node", "n": n, "result": eng_merkle::wide_node_probe(n)}));
                    }
                    drive::drive::<eng_merkle::MerkleEng>(out, &o)
                }
                "map_mv" => drive::drive::<eng_map::MapEng<crdts::MVReg<u8, u8>>>(out, &o),
                "map_or" => drive::drive::<eng_map::MapEng<crdts::Orswot<u8, u8>>>(out, &o),
                "map_map_mv" => drive::drive::<eng_map::MapEng<crdts::Map<u8, crdts::MVReg<u8, u8>, u8>>>(out, &o),
                "map_map_or" => drive::drive::<eng_map::MapEng<crdts::Map<u8, crdts::Orswot<u8, u8>, u8>>>(out, &o),
                e => {
                    eprintln!("no driver for engine {}", e);
                    std::process::exit(2);
                }
            }
        }
        "vectors" => {
            let known = Known::load(&args[5]);
            vectors(&args[2], &args[3], &args[4], &known);
        }
        _ => {
            eprintln!("unknown subcommand");
            std::process::exit(2);
        }
    }
    let _: Value = json!(null);
}
