//! Engine-independent part of the conformance harness: the replicated system
//! of `ReplCore.tla` executed on the real library, the comparison of every
//! TLC dump line with the real code, the per-state obligations, and the
//! verdict records the checks aggregate.

use crate::tree::Tree;
use serde_json::{json, Map as JMap, Value};
use std::collections::{BTreeMap, BTreeSet, HashMap};
use std::panic::{catch_unwind, AssertUnwindSafe};

/// Dimensions of a bounded model (number of actors / elements / keys ...).
#[derive(Clone, Debug, Default)]
pub struct Dims {
    pub n: usize,
    pub m: usize,
    pub k: usize,
}

pub trait Engine {
    type S: Clone;
    type O: Clone;
    const NAME: &'static str;
    /// name under which known findings are listed (differs per instantiation of a generic engine)
    fn kf_name() -> String {
        Self::NAME.to_string()
    }
    /// does the type implement CvRDT
    const HAS_MERGE: bool = true;
    const HAS_RESET: bool = false;
    /// do reads carry causal contexts (ReadCtx): Orswot, MVReg, Map
    const HAS_CTX: bool = false;

    fn new_state() -> Self::S;
    /// run the command through the public API exactly as the README
    /// prescribes (read -> derive ctx -> constructor) and return the op
    fn gen(s: &Self::S, actor: u8, cmd: &Value) -> Self::O;
    fn apply(s: &mut Self::S, op: Self::O);
    fn merge(_s: &mut Self::S, _o: Self::S) {
        unimplemented!()
    }
    /// complete internal state in the schema of the model's ProjB
    fn proj(s: &Self::S, d: &Dims) -> Value;
    /// state projection written into implementation traces (default: the ProjB schema)
    fn trace_post(s: &Self::S, d: &Dims) -> Value {
        Self::proj(s, d)
    }
    /// canonicalise the model's B value (sort what is a set)
    fn canon_b(b: &Value) -> Value;
    /// every public read entry point, canonical
    fn reads(s: &Self::S, d: &Dims) -> Value;
    /// reads without the derived contexts: enough for the before/after comparisons of the per-state obligations
    fn reads_light(s: &Self::S, d: &Dims) -> Value {
        Self::reads(s, d)
    }
    /// the same shape built from the layer-A expectations of a dump line
    fn exp_reads(a: &Value, d: &Dims) -> Value;
    /// the reads a state equal to the model's B state would show (to tell
    /// "the code does what the pinned algorithm does" from a new deviation)
    fn reads_of_b(_b: &Value, _d: &Dims) -> Option<Value> {
        None
    }
    /// canonical state built from layer A (C20), in ProjB schema
    fn canon_from_a(a: &Value, d: &Dims) -> Option<Value>;
    /// the pending (deferred) removes layer A says the replica must be holding, in the schema of the state
    /// projection's pending table; None for types without one
    fn pending_from_a(_a: &Value) -> Option<Value> {
        None
    }
    /// the pending table of a state projection
    fn pending_of_proj(_p: &Value) -> Option<Value> {
        None
    }
    /// true iff layer A says no remove is pending
    fn a_no_pending(_a: &Value) -> bool {
        true
    }
    fn op_proj(o: &Self::O, d: &Dims) -> Value;
    fn canon_op(o: &Value) -> Value;
    /// the part of an op that layer A determines (dot, element/key, top-level contexts); what is left
    /// out (clocks hidden inside nested ops) is layer-B detail: a difference there is drift, not a violation
    fn op_a_view(o: &Value) -> Value {
        o.clone()
    }
    fn validate_op(s: &Self::S, o: &Self::O) -> String;
    fn validate_merge(_a: &Self::S, _b: &Self::S) -> String {
        "Ok".into()
    }
    fn reset(_s: &mut Self::S, _c: &[u64]) {}
    fn eq(a: &Self::S, b: &Self::S) -> bool;
    fn ser_state(s: &Self::S) -> Result<String, String>;
    fn de_state(t: &str) -> Result<Self::S, String>;
    fn ser_op(o: &Self::O) -> Result<String, String>;
    fn de_op(t: &str) -> Result<Self::O, String>;
    /// does the state hold a pending (deferred) remove / an orphan
    fn has_pending(_s: &Self::S) -> bool {
        false
    }
    /// history signatures of known findings that hold for this behaviour
    fn sigs(_sys: &Sys<Self>) -> Vec<String>
    where
        Self: Sized,
    {
        vec![]
    }
    /// which property the type's read contents belong to (C04, C05, C06, ...)
    fn semantic_prop() -> &'static str;
    /// properties a wrong API-built op (identifier, dot, context) is reported under
    fn gen_op_props() -> Vec<&'static str> {
        vec!["C07"]
    }
    /// further properties under which a wrong validate_op / validate_merge verdict is reported
    /// (C11 names LWWReg's conflict flag explicitly)
    fn validation_props() -> Vec<&'static str> {
        vec![]
    }
    /// the semantic property a particular read path belongs to
    fn semantic_prop_for(_path: &str) -> &'static str {
        Self::semantic_prop()
    }
    /// classify a differing read path into "contents" or "ctx"
    fn is_ctx_path(path: &str) -> bool {
        path.contains("add") || path.contains("rm")
    }
}

#[derive(Clone, Default, Debug)]
pub struct Feats {
    pub merge: bool,
    pub noncausal: bool,
    pub dup: bool,
    pub pending: bool,
    pub snap: bool,
}

pub struct OpRec<E: Engine> {
    pub op: E::O,
    pub author: usize,
    pub deps: BTreeSet<usize>,
}

pub struct Sys<E: Engine> {
    pub st: Vec<E::S>,
    pub know: Vec<BTreeSet<usize>>,
    pub ops: Vec<OpRec<E>>,
    pub snap: Option<(E::S, BTreeSet<usize>)>,
    pub feats: Feats,
    pub last_op: Option<E::O>,
}

thread_local! {
    /// source file of the last panic on this thread (set by the panic hook installed in main)
    pub static LAST_PANIC_FILE: std::cell::RefCell<String> = std::cell::RefCell::new(String::new());
}

/// A panic raised by the harness's own code (its files are compiled with the relative path `src/...`; the library
/// and std have absolute paths) is a tool failure, not an observation about the library: it is passed on.
fn harness_origin(file: &str) -> bool {
    file.starts_with("src/") || file.starts_with("harness/src/")
}

thread_local! {
    static LIB_FAULT: std::cell::Cell<bool> = std::cell::Cell::new(false);
}

/// The harness found the LIBRARY at fault at a point where no value can be produced (e.g. `delete_index` returned
/// `None` for an index the history says exists): raised like a panic of the library, so that it is an observation.
pub fn lib_fault(msg: &str) -> ! {
    LIB_FAULT.with(|f| f.set(true));
    panic!("{}", msg.to_string())
}

pub fn catch<T>(f: impl FnOnce() -> T) -> Result<T, String> {
    LAST_PANIC_FILE.with(|l| l.borrow_mut().clear());
    LIB_FAULT.with(|f| f.set(false));
    catch_unwind(AssertUnwindSafe(f)).map_err(|e| {
        let file = LAST_PANIC_FILE.with(|l| l.borrow().clone());
        let lib = LIB_FAULT.with(|f| f.replace(false));
        if harness_origin(&file) && !lib {
            eprintln!("harness panic at {}", file);
            std::panic::resume_unwind(e);
        }
        if let Some(s) = e.downcast_ref::<String>() {
            s.clone()
        } else if let Some(s) = e.downcast_ref::<&str>() {
            s.to_string()
        } else {
            "panic".to_string()
        }
    })
}

impl<E: Engine> Sys<E> {
    pub fn new(n: usize) -> Self {
        Sys {
            st: (0..n).map(|_| E::new_state()).collect(),
            know: vec![BTreeSet::new(); n],
            ops: vec![],
            snap: None,
            feats: Feats::default(),
            last_op: None,
        }
    }

    /// Execute one action of ReplCore on the real code.  Replica and op
    /// indices are 1-based as in the spec.  `actor_of` maps replica -> actor.
    pub fn step(&mut self, act: &Value, actor_of: &dyn Fn(usize) -> u8) -> Result<usize, String> {
        let a = act.as_array().ok_or("action is not an array")?;
        let kind = a[0].as_str().ok_or("action kind")?;
        let r = a[1].as_u64().ok_or("action replica")? as usize;
        self.last_op = None;
        match kind {
            "gen" => {
                let cmd = &a[2];
                let actor = actor_of(r);
                let s = &self.st[r - 1];
                let op = catch(|| E::gen(s, actor, cmd)).map_err(|e| format!("PANIC in gen: {}", e))?;
                let deps = self.know[r - 1].clone();
                self.ops.push(OpRec {
                    op: op.clone(),
                    author: r,
                    deps,
                });
                let idx = self.ops.len();
                let st = &mut self.st[r - 1];
                let op2 = op.clone();
                catch(|| E::apply(st, op2)).map_err(|e| format!("PANIC in apply: {}", e))?;
                self.know[r - 1].insert(idx);
                self.last_op = Some(op);
            }
            "dlv" | "dup" => {
                let i = a[2].as_u64().ok_or("op index")? as usize;
                let rec = &self.ops[i - 1];
                if self.know[r - 1].contains(&i) {
                    self.feats.dup = true;
                } else if !rec.deps.is_subset(&self.know[r - 1]) {
                    self.feats.noncausal = true;
                }
                let op = rec.op.clone();
                let st = &mut self.st[r - 1];
                catch(|| E::apply(st, op)).map_err(|e| format!("PANIC in apply: {}", e))?;
                self.know[r - 1].insert(i);
            }
            "mrg" => {
                let q = a[2].as_u64().ok_or("peer")? as usize;
                self.feats.merge = true;
                let other = self.st[q - 1].clone();
                let st = &mut self.st[r - 1];
                catch(|| E::merge(st, other)).map_err(|e| format!("PANIC in merge: {}", e))?;
                let kq = self.know[q - 1].clone();
                self.know[r - 1].extend(kq);
            }
            "save" => {
                self.snap = Some((self.st[r - 1].clone(), self.know[r - 1].clone()));
                self.feats.snap = true;
                return Ok(0);
            }
            "mrgsnap" => {
                self.feats.merge = true;
                self.feats.snap = true;
                let (s, k) = self.snap.clone().ok_or("no snapshot")?;
                let st = &mut self.st[r - 1];
                catch(|| E::merge(st, s)).map_err(|e| format!("PANIC in merge: {}", e))?;
                self.know[r - 1].extend(k);
            }
            other => return Err(format!("unknown action {}", other)),
        }
        if E::has_pending(&self.st[r - 1]) {
            self.feats.pending = true;
        }
        Ok(r)
    }
}

// ---------------------------------------------------------------------------
// verdict records
// ---------------------------------------------------------------------------

#[derive(Default)]
pub struct Report {
    /// number of comparisons made, per property
    pub evals: BTreeMap<String, u64>,
    /// non-pass records (capped per (kind, prop set, obs))
    pub records: Vec<Value>,
    pub rec_counts: BTreeMap<String, u64>,
    pub drift: u64,
    pub lines: u64,
    pub nontrivial: BTreeMap<String, u64>,
    pub samples: Vec<Value>,
    pub known: BTreeMap<String, u64>,
    pub errors: Vec<String>,
}

pub const CAP_PER_CLASS: u64 = 5;

impl Report {
    pub fn eval(&mut self, props: &[&str]) {
        for p in props {
            *self.evals.entry(p.to_string()).or_insert(0) += 1;
        }
    }
    pub fn nontriv(&mut self, key: &str) {
        *self.nontrivial.entry(key.to_string()).or_insert(0) += 1;
    }
    pub fn add(
        &mut self,
        verdict: &str,
        props: &[&str],
        engine: &str,
        obs: &str,
        real: Value,
        exp: Value,
        model: Value,
        h: &Value,
        extra: Value,
    ) {
        let class = format!("{}|{}|{}", verdict, props.join(","), obs_class(obs));
        let c = self.rec_counts.entry(class).or_insert(0);
        *c += 1;
        if verdict.starts_with("known:") {
            *self.known.entry(verdict[6..].to_string()).or_insert(0) += 1;
        }
        if verdict == "drift" {
            self.drift += 1;
        }
        if *c <= CAP_PER_CLASS {
            self.records.push(json!({
                "verdict": verdict, "props": props, "engine": engine, "obs": obs,
                "real": real, "A": exp, "B": model, "h": h, "extra": extra
            }));
        }
    }
    pub fn absorb(&mut self, o: Report) {
        for (k, v) in o.evals {
            *self.evals.entry(k).or_insert(0) += v;
        }
        for (k, v) in o.rec_counts {
            *self.rec_counts.entry(k).or_insert(0) += v;
        }
        for (k, v) in o.nontrivial {
            *self.nontrivial.entry(k).or_insert(0) += v;
        }
        for (k, v) in o.known {
            *self.known.entry(k).or_insert(0) += v;
        }
        self.drift += o.drift;
        self.lines += o.lines;
        for r in o.records {
            let class = format!("{}|{}|{}", r["verdict"].as_str().unwrap_or(""),
                r["props"].as_array().map(|a| a.iter().filter_map(|x| x.as_str()).collect::<Vec<_>>().join(",")).unwrap_or_default(),
                obs_class(r["obs"].as_str().unwrap_or("")));
            let have = self.records.iter().filter(|x| {
                format!("{}|{}|{}", x["verdict"].as_str().unwrap_or(""),
                    x["props"].as_array().map(|a| a.iter().filter_map(|y| y.as_str()).collect::<Vec<_>>().join(",")).unwrap_or_default(),
                    obs_class(x["obs"].as_str().unwrap_or(""))) == class
            }).count() as u64;
            if have < CAP_PER_CLASS {
                self.records.push(r);
            }
        }
        for s in o.samples {
            if self.samples.len() < 6 {
                self.samples.push(s);
            }
        }
        self.errors.extend(o.errors);
    }
    pub fn to_json(&self) -> Value {
        json!({
            "lines": self.lines,
            "evals": self.evals,
            "records": self.records,
            "rec_counts": self.rec_counts,
            "drift": self.drift,
            "nontrivial": self.nontrivial,
            "samples": self.samples,
            "known": self.known,
            "errors": self.errors,
        })
    }
}

/// observable class = the path with indices removed ("contains[2].rm" -> "contains[].rm")
pub fn obs_class(obs: &str) -> String {
    let mut out = String::new();
    let mut in_br = false;
    for ch in obs.chars() {
        match ch {
            '[' => {
                in_br = true;
                out.push('[');
            }
            ']' => {
                in_br = false;
                out.push(']');
            }
            _ if in_br => {}
            c => out.push(c),
        }
    }
    out
}

/// first path at which two JSON values differ
pub fn first_diff(a: &Value, b: &Value, path: &str) -> Option<(String, Value, Value)> {
    match (a, b) {
        (Value::Object(x), Value::Object(y)) => {
            let keys: BTreeSet<&String> = x.keys().chain(y.keys()).collect();
            for k in keys {
                let p = if path.is_empty() {
                    k.to_string()
                } else {
                    format!("{}.{}", path, k)
                };
                match (x.get(k), y.get(k)) {
                    (Some(u), Some(v)) => {
                        if let Some(d) = first_diff(u, v, &p) {
                            return Some(d);
                        }
                    }
                    (u, v) => {
                        return Some((
                            p,
                            u.cloned().unwrap_or(Value::Null),
                            v.cloned().unwrap_or(Value::Null),
                        ))
                    }
                }
            }
            None
        }
        (Value::Array(x), Value::Array(y)) if x.len() == y.len() => {
            for (i, (u, v)) in x.iter().zip(y.iter()).enumerate() {
                if let Some(d) = first_diff(u, v, &format!("{}[{}]", path, i + 1)) {
                    return Some(d);
                }
            }
            None
        }
        _ => {
            if a == b {
                None
            } else {
                Some((path.to_string(), a.clone(), b.clone()))
            }
        }
    }
}

/// every leaf path at which two JSON values differ
pub fn all_diffs(a: &Value, b: &Value) -> Vec<(String, Value, Value)> {
    fn go(a: &Value, b: &Value, path: &str, out: &mut Vec<(String, Value, Value)>) {
        match (a, b) {
            (Value::Object(x), Value::Object(y)) => {
                let keys: BTreeSet<&String> = x.keys().chain(y.keys()).collect();
                for k in keys {
                    let p = if path.is_empty() { k.to_string() } else { format!("{}.{}", path, k) };
                    match (x.get(k), y.get(k)) {
                        (Some(u), Some(v)) => go(u, v, &p, out),
                        (u, v) => out.push((p, u.cloned().unwrap_or(Value::Null), v.cloned().unwrap_or(Value::Null))),
                    }
                }
            }
            (Value::Array(x), Value::Array(y)) if x.len() == y.len() => {
                for (i, (u, v)) in x.iter().zip(y.iter()).enumerate() {
                    go(u, v, &format!("{}[{}]", path, i + 1), out);
                }
            }
            _ => {
                // "ANY" = the expectation is deliberately undetermined (documented misuse)
                if a != b && *b != Value::String("ANY".into()) && *a != Value::String("ANY".into()) {
                    out.push((path.to_string(), a.clone(), b.clone()));
                }
            }
        }
    }
    let mut out = vec![];
    go(a, b, "", &mut out);
    out
}

/// all paths at which two JSON values differ (top-level keys only are split)
pub fn diffs_by_key(a: &Value, b: &Value) -> Vec<(String, Value, Value)> {
    let mut out = vec![];
    if let (Value::Object(x), Value::Object(y)) = (a, b) {
        let keys: BTreeSet<&String> = x.keys().chain(y.keys()).collect();
        for k in keys {
            let u = x.get(k).cloned().unwrap_or(Value::Null);
            let v = y.get(k).cloned().unwrap_or(Value::Null);
            if let Some(d) = first_diff(&u, &v, k) {
                out.push(d);
            }
        }
    } else if let Some(d) = first_diff(a, b, "") {
        out.push(d);
    }
    out
}

pub fn sort_array(v: &mut Value) {
    if let Value::Array(a) = v {
        a.sort_by(|x, y| cmp_json(x, y));
    }
}

pub fn cmp_json(a: &Value, b: &Value) -> std::cmp::Ordering {
    use std::cmp::Ordering::*;
    fn rank(v: &Value) -> u8 {
        match v {
            Value::Null => 0,
            Value::Bool(_) => 1,
            Value::Number(_) => 2,
            Value::String(_) => 3,
            Value::Array(_) => 4,
            Value::Object(_) => 5,
        }
    }
    match (a, b) {
        (Value::Bool(x), Value::Bool(y)) => x.cmp(y),
        (Value::Number(x), Value::Number(y)) => x
            .as_f64()
            .partial_cmp(&y.as_f64())
            .unwrap_or(Equal),
        (Value::String(x), Value::String(y)) => x.cmp(y),
        (Value::Array(x), Value::Array(y)) => {
            for (u, v) in x.iter().zip(y.iter()) {
                let c = cmp_json(u, v);
                if c != Equal {
                    return c;
                }
            }
            x.len().cmp(&y.len())
        }
        (Value::Object(x), Value::Object(y)) => {
            let sx = serde_json::to_string(x).unwrap();
            let sy = serde_json::to_string(y).unwrap();
            sx.cmp(&sy)
        }
        _ => rank(a).cmp(&rank(b)),
    }
}

// ---------------------------------------------------------------------------
// known findings
// ---------------------------------------------------------------------------

#[derive(Clone, Debug)]
pub struct Finding {
    pub id: String,
    pub property: String,
    pub engine: Vec<String>,
    /// observable class prefix this finding explains
    pub obs: Vec<String>,
    pub status: String,
    /// extra condition: "" / "model" (the model, where it gives a value, shows the same deviation)
    /// | "pending" (the state holds a pending remove)
    pub when: String,
    /// name of a history signature (a necessary condition of the defect's mechanism) that must hold
    pub sig: String,
    pub what: String,
}

pub struct Known {
    pub findings: Vec<Finding>,
}

/// pattern with at most one '*': "prefix*suffix"; without '*' it is a prefix match
pub fn glob_match(pat: &str, s: &str) -> bool {
    match pat.find('*') {
        Some(i) => {
            let (pre, suf) = (&pat[..i], &pat[i + 1..]);
            s.len() >= pre.len() + suf.len() && s.starts_with(pre) && s.ends_with(suf)
        }
        None => s.starts_with(pat),
    }
}

impl Known {
    pub fn load(path: &str) -> Known {
        let mut findings = vec![];
        if let Ok(t) = std::fs::read_to_string(path) {
            if let Ok(v) = serde_json::from_str::<Value>(&t) {
                for f in v["findings"].as_array().cloned().unwrap_or_default() {
                    findings.push(Finding {
                        id: f["id"].as_str().unwrap_or("").to_string(),
                        property: f["property"].as_str().unwrap_or("").to_string(),
                        engine: match &f["engine"] {
                            Value::String(x) => vec![x.clone()],
                            Value::Array(a) => a.iter().filter_map(|x| x.as_str().map(|s| s.to_string())).collect(),
                            _ => vec![],
                        },
                        obs: f["obs"]
                            .as_array()
                            .map(|a| a.iter().filter_map(|x| x.as_str().map(|s| s.to_string())).collect())
                            .unwrap_or_default(),
                        status: f["status"].as_str().unwrap_or("").to_string(),
                        when: f["when"].as_str().unwrap_or("").to_string(),
                        sig: f["sig"].as_str().unwrap_or("").to_string(),
                        what: f["what"].as_str().unwrap_or("").to_string(),
                    });
                }
            }
        }
        Known { findings }
    }
    /// an OPEN finding that lists this observable class for this engine.
    /// `eq_model`: Some(b) when the model gives a value for this observable
    /// (b = real equals it); a finding never hides an occurrence where the
    /// real code deviates from what the pinned algorithm (layer B) does.
    pub fn listed(&self, engine: &str, obs: &str, eq_model: Option<bool>, pending: bool, sigs: &[String]) -> Option<&Finding> {
        let oc = obs_class(obs);
        self.findings.iter().find(|f| {
            f.status == "open"
                && f.engine.iter().any(|e| e == engine)
                && f.obs.iter().any(|o| glob_match(o, &oc))
                && (f.sig.is_empty() || sigs.iter().any(|x| *x == f.sig))
                && eq_model.unwrap_or(true)
                && match f.when.as_str() {
                    "pending" => pending,
                    _ => true,
                }
        })
    }
}

// ---------------------------------------------------------------------------
// replay of a TLC dump
// ---------------------------------------------------------------------------

#[derive(Clone)]
pub struct ReplayOpts {
    pub engine_cfg: String,
    pub obligations: bool,
    pub laws: bool,
    pub persist: bool,
    pub max_samples: usize,
    /// explicit model dimensions (members, keys); 0 = derive from the first line
    pub m: usize,
    pub k: usize,
    /// deliberate-misuse configuration (an actor / marker used twice): only the
    /// validation verdicts (C16, C17) are judged, the convergence obligations do not apply
    pub misuse: bool,
    /// misuse configurations of the dotted types (two replicas editing through ONE actor): layer A has
    /// no meaning for the contents there, only validate_merge is judged (against the spec's vmA)
    pub vm_only: bool,
    /// delivery regimes under which the type's reads are not defined (e.g. List without causal delivery): only
    /// validate_op, which is defined for out-of-order ops too, is judged
    pub vop_only: bool,
    /// replicas 1 and 2 edit through actor 1 (the misuse configurations' MCActorOfShared)
    pub shared_actor: bool,
}

pub fn parse_dump_line(line: &str) -> Option<Value> {
    let l = line.trim_end();
    if !l.starts_with("<<\"E\", \"") {
        return None;
    }
    let inner = &l[8..l.len() - 3];
    let un = inner.replace("\\\"", "\"").replace("\\\\", "\\");
    serde_json::from_str(&un).ok()
}

fn props_for_contents<E: Engine>(f: &Feats) -> Vec<&'static str> {
    let mut p = vec![E::semantic_prop()];
    if !f.merge && !f.noncausal {
        p.push("C01");
    }
    if f.merge {
        p.push("C03");
    }
    if f.noncausal || f.pending {
        p.push("C08");
    }
    if f.dup {
        p.push("C09");
    }
    p
}

fn props_for_ctx<E: Engine>(f: &Feats) -> Vec<&'static str> {
    let mut p = vec!["C07"];
    if !f.merge && !f.noncausal {
        p.push("C01");
    }
    if f.merge {
        p.push("C03");
    }
    if f.noncausal || f.pending {
        p.push("C08");
    }
    p
}

/// one equal-knowledge class: the reads and state first seen for it
#[derive(Clone)]
pub struct ConvEntry {
    pub reads: Value,
    pub proj: Value,
    pub h: Value,
    /// reached by causal op delivery only (no merge, no overtaking): C01 applies
    pub causal: bool,
    /// the real state equalled layer B on that line
    pub no_drift: bool,
    pub pending: bool,
    pub sigs: Vec<String>,
}

/// C01 (equal reads, causal op delivery) and C20 (equal state, any schedule) across behaviours
pub fn conv_compare<E: Engine>(rep: &mut Report, known: &Known, a: &ConvEntry, b: &ConvEntry) {
    let mut sigs = a.sigs.clone();
    sigs.extend(b.sigs.iter().cloned());
    let eqm = Some(a.no_drift && b.no_drift);
    let pend = a.pending || b.pending;
    if a.causal && b.causal {
        rep.eval(&["C01"]);
        if a.reads != b.reads {
            let dd = first_diff(&b.reads, &a.reads, "").unwrap();
            let obs = format!("conv.{}", dd.0);
            let verdict = match known.listed(&E::kf_name(), &obs, eqm, pend, &sigs) {
                Some(fd) => format!("known:{}", fd.id),
                None => "violation".to_string(),
            };
            rep.add(&verdict, &["C01"], E::NAME, &obs, dd.1, dd.2, Value::Null, &b.h, json!({"other_path": a.h}));
        }
    }
    rep.eval(&["C20"]);
    if a.proj != b.proj {
        let dd = first_diff(&b.proj, &a.proj, "").unwrap();
        let obs = format!("convstate.{}", dd.0);
        let verdict = match known.listed(&E::kf_name(), &obs, eqm, pend, &sigs) {
            Some(fd) => format!("known:{}", fd.id),
            None => "violation".to_string(),
        };
        rep.add(&verdict, &["C20"], E::NAME, &obs, dd.1, dd.2, Value::Null, &b.h, json!({"other_path": a.h}));
    }
}

pub struct Replayer<'a, E: Engine> {
    pub rep: Report,
    pub known: &'a Known,
    pub opts: ReplayOpts,
    /// C01 across behaviours: canonical knowledge -> (reads, path)
    pub conv: HashMap<String, ConvEntry>,
    pub dims: Dims,
    pub cur_sigs: Vec<String>,
    _e: std::marker::PhantomData<E>,
}

impl<'a, E: Engine> Replayer<'a, E> {
    pub fn new(known: &'a Known, opts: ReplayOpts) -> Self {
        Replayer {
            rep: Report::default(),
            known,
            opts,
            conv: HashMap::new(),
            dims: Dims::default(),
            cur_sigs: vec![],
            _e: std::marker::PhantomData,
        }
    }

    fn judge(
        &mut self,
        props: &[&str],
        obs: &str,
        real: Value,
        exp: Value,
        model: Option<Value>,
        h: &Value,
        pending: bool,
        extra: Value,
    ) {
        self.rep.eval(props);
        if real == exp {
            return;
        }
        let eq_model = model.as_ref().map(|m| *m == real);
        let verdict = match self.known.listed(&E::kf_name(), obs, eq_model, pending, &self.cur_sigs) {
            Some(f) => format!("known:{}", f.id),
            None => "violation".to_string(),
        };
        self.rep.add(
            &verdict,
            props,
            E::NAME,
            obs,
            real,
            exp,
            model.unwrap_or(Value::Null),
            h,
            extra,
        );
    }

    pub fn line(&mut self, ln: &Value) {
        self.rep.lines += 1;
        let h = &ln["h"];
        let who = ln["who"].as_u64().unwrap_or(0) as usize;
        if who == 0 {
            return;
        }
        let n = ln["vop"].as_array().map(|a| a.len()).unwrap_or(0).max(who);
        if self.dims.n == 0 {
            self.dims = dims_of::<E>(ln, n);
            if self.opts.m > 0 {
                self.dims.m = self.opts.m;
            }
            if self.opts.k > 0 {
                self.dims.k = self.opts.k;
            }
        }
        let d = self.dims.clone();
        let shared = self.opts.shared_actor;
        let actor_of = move |r: usize| if shared && r <= 2 { 1u8 } else { r as u8 };
        let mut sys: Sys<E> = Sys::new(d.n);
        // the persisted twin: every replica goes through serde_json after every step
        let mut twin: Option<Sys<E>> = if self.opts.persist { Some(Sys::new(d.n)) } else { None };
        let steps = h.as_array().cloned().unwrap_or_default();
        for (k, act) in steps.iter().enumerate() {
            let last = k + 1 == steps.len();
            match sys.step(act, &actor_of) {
                Ok(_) => {}
                Err(e) => {
                    // a panic of the library is an observable, attributed to the
                    // type's semantic property (and C01)
                    self.rep.eval(&[E::semantic_prop()]);
                    let pend = sys.feats.pending;
                    let sg = E::sigs(&sys);
                    let verdict = match self.known.listed(&E::kf_name(), "panic", None, pend, &sg) {
                        Some(f) => format!("known:{}", f.id),
                        None => "violation".to_string(),
                    };
                    self.rep.add(
                        &verdict,
                        &[E::semantic_prop()],
                        E::NAME,
                        "panic",
                        json!(e),
                        json!("no panic"),
                        Value::Null,
                        h,
                        json!({"step": k + 1}),
                    );
                    return;
                }
            }
            if let Some(tw) = twin.as_mut() {
                self.twin_step(tw, &sys, act, h, k, last);
            }
        }
        self.cur_sigs = E::sigs(&sys);
        if self.opts.vm_only || self.opts.vop_only {
            self.obligations(&sys, who, ln, h);
            self.rep.nontriv(if self.opts.vop_only { "out_of_order_line" } else { "misuse_line" });
            return;
        }
        let s = &sys.st[who - 1];
        let f = sys.feats.clone();
        let pend_now = E::has_pending(s);

        // 1. reads vs layer A
        let real_reads = E::reads(s, &d);
        // C07, the part a read must satisfy by itself: the remove context of an element is empty iff the element is
        // absent, and never exceeds the add context returned with it
        if E::HAS_CTX {
            for entry in ["contains", "get"] {
                if let Some(items) = real_reads[entry].as_array() {
                    for (i, it) in items.iter().enumerate() {
                        let (add, rm) = (it["add"].as_array(), it["rm"].as_array());
                        if let (Some(add), Some(rm)) = (add, rm) {
                            let absent = it["val"].is_null() || it["val"] == json!(false);
                            let rm_empty = rm.iter().all(|x| x.as_i64() == Some(0));
                            self.rep.eval(&["C07"]);
                            if absent != rm_empty {
                                self.rep.add("violation", &["C07"], E::NAME, &format!("{}[{}].rm_empty_iff_absent", entry, i + 1), json!({"absent": absent, "rm": rm}), json!("rm context empty iff absent"), Value::Null, h, Value::Null);
                            }
                            let within = rm.len() == add.len() && rm.iter().zip(add.iter()).all(|(r, a)| r.as_i64().unwrap_or(-1) <= a.as_i64().unwrap_or(-1));
                            if !within {
                                self.rep.add("violation", &["C07"], E::NAME, &format!("{}[{}].rm_within_add", entry, i + 1), json!({"add": add, "rm": rm}), json!("rm context never exceeds the add context"), Value::Null, h, Value::Null);
                            }
                        }
                    }
                }
            }
        }
        let exp = E::exp_reads(&ln["A"], &d);
        let b = E::canon_b(&ln["B"]);
        let model_reads = E::reads_of_b(&b, &d);
        let mdiffs: Vec<String> = match model_reads.as_ref() {
            Some(mr) => all_diffs(&real_reads, mr).into_iter().map(|x| x.0).collect(),
            None => vec![],
        };
        let diffs = all_diffs(&real_reads, &exp);
        {
            let pc = props_for_contents::<E>(&f);
            let px = props_for_ctx::<E>(&f);
            self.rep.eval(&pc);
            if E::HAS_CTX {
                self.rep.eval(&px);
            }
            for (path, r, e) in diffs.iter() {
                let mut props = if E::is_ctx_path(path) { px.clone() } else { pc.clone() };
                if !E::is_ctx_path(path) {
                    props[0] = E::semantic_prop_for(path);
                }
                let eqm = model_reads.as_ref().map(|_| !mdiffs.contains(path));
                let verdict = match self.known.listed(&E::kf_name(), path, eqm, pend_now, &self.cur_sigs) {
                    Some(fd) => format!("known:{}", fd.id),
                    None => "violation".to_string(),
                };
                self.rep.add(&verdict, &props, E::NAME, path, r.clone(), e.clone(), Value::Null, h, Value::Null);
            }
        }

        // 2. full internal state vs layer B (drift) and vs the canonical state of layer A (C20)
        let real_proj = E::proj(s, &d);
        if real_proj != b {
            let dd = first_diff(&real_proj, &b, "").unwrap();
            self.rep.add("drift", &[], E::NAME, &format!("state.{}", dd.0), dd.1, Value::Null, dd.2, h, Value::Null);
        }
        if let Some(canon) = E::canon_from_a(&ln["A"], &d) {
            if E::a_no_pending(&ln["A"]) {
                self.rep.eval(&["C20"]);
                if real_proj != canon {
                    let dd = first_diff(&real_proj, &canon, "").unwrap();
                    let eqm = real_proj == b;
                    let verdict = match self.known.listed(&E::kf_name(), &format!("canon.{}", dd.0), Some(eqm), pend_now, &self.cur_sigs) {
                        Some(fd) => format!("known:{}", fd.id),
                        None => "violation".to_string(),
                    };
                    self.rep.add(&verdict, &["C20"], E::NAME, &format!("canon.{}", dd.0), dd.1, dd.2, b.clone(), h, Value::Null);
                }
            }
        }

        // 2b. C08: "the replica remembers" an overtaking remove, also through merges: the pending removes it holds
        //     are exactly those layer A says are still waiting (a lost one would only show later, on paths TLC may
        //     not enumerate because the model state is reached another way)
        if let (Some(pa), Some(pr)) = (E::pending_from_a(&ln["A"]), E::pending_of_proj(&real_proj)) {
            let mut pp = vec!["C08"];
            if f.merge {
                pp.push("C03");
            }
            self.rep.eval(&pp);
            if pa != pr {
                let eqm = Some(E::pending_of_proj(&b) == Some(pr.clone()));
                let verdict = match self.known.listed(&E::kf_name(), "pending", eqm, pend_now, &self.cur_sigs) {
                    Some(fd) => format!("known:{}", fd.id),
                    None => "violation".to_string(),
                };
                self.rep.add(&verdict, &pp, E::NAME, "pending", pr, pa, Value::Null, h, Value::Null);
            }
        }

        // 3. the op the API built vs the op the model built
        if let (Some(op), Some(mop)) = (sys.last_op.as_ref(), ln["op"].as_array().and_then(|a| a.first())) {
            let real_op = E::op_proj(op, &d);
            let mo = E::canon_op(mop);
            let gp = E::gen_op_props();
            let (ra, ma) = (E::op_a_view(&real_op), E::op_a_view(&mo));
            if ra == ma && real_op != mo {
                self.rep.add("drift", &[], E::NAME, "gen.op.hidden", real_op.clone(), Value::Null, mo.clone(), h, Value::Null);
            }
            self.judge(&gp, "gen.op", ra, ma, None, h, pend_now, Value::Null);
        }

        // 4. C01 / C20 across behaviours: equal sets of learned ops => equal reads (causal op
        //    delivery) and equal state (any schedule)
        if !self.opts.misuse {
            let mut keyv: Vec<String> = sys.know[who - 1]
                .iter()
                .map(|i| serde_json::to_string(&E::op_proj(&sys.ops[*i - 1].op, &d)).unwrap())
                .collect();
            keyv.sort();
            let key = keyv.join(";");
            let entry = ConvEntry {
                reads: real_reads.clone(),
                proj: real_proj.clone(),
                h: h.clone(),
                causal: !f.merge && !f.noncausal,
                no_drift: real_proj == b,
                pending: pend_now,
                sigs: self.cur_sigs.clone(),
            };
            match self.conv.get(&key).cloned() {
                Some(e0) => {
                    conv_compare::<E>(&mut self.rep, self.known, &e0, &entry);
                    // prefer to remember a causal representative, so that C01 gets compared
                    if entry.causal && !e0.causal {
                        self.conv.insert(key, entry);
                    }
                }
                None => {
                    self.conv.insert(key, entry);
                }
            }
        }

        if ln["A"]["vec"].as_array().map(|a| !a.is_empty()).unwrap_or(false) {
            // a local edit judged against the sequential-list model
            self.rep.eval(&["C13"]);
            self.rep.nontriv("local_edit_on_concurrent_state");
        }
        if self.opts.obligations {
            self.obligations(&sys, who, ln, h);
        }

        // non-triviality counters
        if f.pending {
            self.rep.nontriv("pending_remove_seen");
        }
        if f.noncausal {
            self.rep.nontriv("noncausal_delivery");
        }
        if f.merge {
            self.rep.nontriv("merge_in_path");
        }
        if steps.len() >= 3 {
            self.rep.nontriv("len_ge_3");
        }
        if self.rep.samples.len() < self.opts.max_samples && steps.len() >= 5 && (self.rep.lines % 997 == 3) {
            self.rep.samples.push(json!({"h": h, "reads": real_reads}));
        }
    }

    fn twin_step(&mut self, tw: &mut Sys<E>, sys: &Sys<E>, act: &Value, h: &Value, k: usize, last: bool) {
        let actor_of = |r: usize| r as u8;
        let d = self.dims.clone();
        // ops travel serialised too
        let r = match tw.step(act, &actor_of) {
            Ok(r) => r,
            Err(_) => return,
        };
        if let Some(op) = tw.last_op.clone() {
            self.rep.eval(&["C19"]);
            match E::ser_op(&op).and_then(|t| E::de_op(&t)) {
                Ok(op2) => {
                    let a = E::op_proj(&op, &d);
                    let b = E::op_proj(&op2, &d);
                    if a != b {
                        self.rep.add("violation", &["C19"], E::NAME, "serde.op", b, a, Value::Null, h, json!({"step": k + 1}));
                    }
                    let idx = tw.ops.len() - 1;
                    tw.ops[idx].op = op2;
                }
                Err(e) => {
                    self.rep.add("violation", &["C19"], E::NAME, "serde.op", json!(e), json!("round trip"), Value::Null, h, json!({"step": k + 1}));
                }
            }
        }
        if r == 0 {
            return;
        }
        // persist + restore the replica that moved
        self.rep.eval(&["C19"]);
        let pending = E::has_pending(&tw.st[r - 1]);
        if pending {
            self.rep.nontriv("persist_with_pending");
        }
        match E::ser_state(&tw.st[r - 1]) {
            Ok(t) => match E::de_state(&t) {
                Ok(s2) => {
                    let eq = catch(|| E::eq(&s2, &tw.st[r - 1]) && E::eq(&tw.st[r - 1], &s2)).unwrap_or(false);
                    if !eq {
                        self.rep.add("violation", &["C19"], E::NAME, "serde.eq", json!(false), json!(true), Value::Null, h, json!({"step": k + 1}));
                    }
                    tw.st[r - 1] = s2;
                }
                Err(e) => {
                    self.rep.add("violation", &["C19"], E::NAME, "serde.de", json!(e), json!("round trip"), Value::Null, h, json!({"step": k + 1}));
                }
            },
            Err(e) => {
                let verdict = match self.known.listed(&E::kf_name(), "serde.ser", None, pending, &self.cur_sigs) {
                    Some(fd) => format!("known:{}", fd.id),
                    None => "violation".to_string(),
                };
                self.rep.add(&verdict, &["C19"], E::NAME, "serde.ser", json!(e), json!("serialisable"), Value::Null, h, json!({"step": k + 1}));
            }
        }
        // the restored replica must be indistinguishable from the one that never went to disk
        if last {
            self.rep.eval(&["C19"]);
            let a = E::proj(&tw.st[r - 1], &d);
            let b = E::proj(&sys.st[r - 1], &d);
            if a != b {
                let dd = first_diff(&a, &b, "").unwrap();
                self.rep.add("violation", &["C19"], E::NAME, &format!("serde.state.{}", dd.0), dd.1, dd.2, Value::Null, h, Value::Null);
            }
            let ra = E::reads(&tw.st[r - 1], &d);
            let rb = E::reads(&sys.st[r - 1], &d);
            if ra != rb {
                let dd = first_diff(&ra, &rb, "").unwrap();
                self.rep.add("violation", &["C19"], E::NAME, &format!("serde.reads.{}", dd.0), dd.1, dd.2, Value::Null, h, Value::Null);
            }
        }
    }

    /// per-state obligations on the real code (C09, C16, C17, C02, C18, C20)
    fn obligations(&mut self, sys: &Sys<E>, who: usize, ln: &Value, h: &Value) {
        let d = self.dims.clone();
        let s = &sys.st[who - 1];
        let pend_now = E::has_pending(s);
        let base_reads = E::reads_light(s, &d);
        let base_proj = E::proj(s, &d);
        let ob = &ln["ob"];
        // model verdict <<reads equal, state equal>> at ob.<name>[i][j]..., if the model printed it
        let mv = |v: &Value, idx: usize| -> Option<Value> { v.as_array().and_then(|a| a.get(idx)).cloned() };

        // a duplicate / stale state that disturbs a replica holding a pending remove (or reached by an overtaking
        // delivery) also contradicts C08 ("the pending remove ... travels inside merged states")
        let c08 = sys.feats.pending || sys.feats.noncausal;
        let p_reads: Vec<&str> = if c08 { vec!["C09", "C08"] } else { vec!["C09"] };
        let p_state: Vec<&str> = if c08 { vec!["C09", "C20", "C08"] } else { vec!["C09", "C20"] };
        let misuse = self.opts.misuse || self.opts.vm_only || self.opts.vop_only;
        let vm_only = self.opts.vm_only;
        // C09: re-applying any known op changes nothing (reads, ==)
        for i in sys.know[who - 1].iter() {
            if misuse {
                break;
            }
            let mut c = s.clone();
            let op = sys.ops[*i - 1].op.clone();
            let res = catch(|| {
                E::apply(&mut c, op);
                c
            });
            match res {
                Ok(c) => {
                    let m = mv(&ob["dup"], *i - 1);
                    let r2 = E::reads_light(&c, &d);
                    self.judge(&p_reads, "dup.reads", json!(r2 == base_reads), json!(true), m.as_ref().and_then(|x| mv(x, 0)), h, pend_now, json!({"op": i}));
                    let p2 = E::proj(&c, &d);
                    self.judge(&p_state, "dup.state", json!(p2 == base_proj), json!(true), m.as_ref().and_then(|x| mv(x, 1)), h, pend_now, json!({"op": i}));
                }
                Err(e) => self.judge(&["C09"], "dup.panic", json!(e), json!(true), None, h, pend_now, json!({"op": i})),
            }
        }
        // C16: validate_op of every logged op at every replica vs layer A
        if let Some(vop) = ln["vop"].as_array() {
            for (q, row) in vop.iter().enumerate() {
                for (i, expv) in row.as_array().cloned().unwrap_or_default().iter().enumerate() {
                    if i >= sys.ops.len() {
                        continue;
                    }
                    if *expv == json!("ANY") || vm_only {
                        continue;
                    }
                    let st = &sys.st[q];
                    let op = &sys.ops[i].op;
                    let real = catch(|| E::validate_op(st, op)).unwrap_or_else(|e| format!("PANIC {}", e));
                    let m = mv(&ln["vopB"], q).and_then(|x| mv(&x, i));
                    let mut pv = vec!["C16"];
                    pv.extend(E::validation_props());
                    self.judge(&pv, "vop", json!(real), expv.clone(), m, h, pend_now, json!({"replica": q + 1, "op": i + 1}));
                }
            }
        }
        if !E::HAS_MERGE || self.opts.vop_only {
            return;
        }
        // C09: merging a state whose knowledge is subsumed changes nothing
        let mut others: Vec<(&E::S, &BTreeSet<usize>, String)> = vec![];
        for q in 0..d.n {
            if q + 1 != who {
                others.push((&sys.st[q], &sys.know[q], format!("r{}", q + 1)));
            }
        }
        if let Some((ss, sk)) = sys.snap.as_ref() {
            others.push((ss, sk, "snap".into()));
        }
        for (os, ok, name) in others.iter() {
            // C17: validate_merge under correct use is Ok, and symmetric
            let v1 = catch(|| E::validate_merge(s, os)).unwrap_or_else(|e| format!("PANIC {}", e));
            let v2 = catch(|| E::validate_merge(os, s)).unwrap_or_else(|e| format!("PANIC {}", e));
            let model = if name.starts_with('r') {
                let q: usize = name[1..].parse().unwrap();
                ln["vm"].as_array().and_then(|a| a.get(q - 1)).cloned()
            } else {
                None
            };
            // expected verdict: Ok under correct use; in misuse configurations the spec prints it (vmA)
            let expvm = if name.starts_with('r') {
                let q: usize = name[1..].parse().unwrap();
                ln["vmA"].as_array().and_then(|a| a.get(q - 1)).cloned().unwrap_or(json!("Ok"))
            } else {
                json!("Ok")
            };
            let mut pm = vec!["C17"];
            pm.extend(E::validation_props());
            // C17 asks for AN error when a dot / marker was reused, not for a particular one: when several complaints
            // exist, which is reported first (and in which direction) is the algorithm's choice.  Verdicts are therefore
            // compared as classes: Ok / error / panic.
            let class = |v: &str| if v == "Ok" { "Ok" } else if v.starts_with("PANIC") { "PANIC" } else { "Err" };
            let real_vm = if expvm != json!("Ok") && class(&v1) == "Err" { expvm.clone() } else { json!(v1) };
            self.judge(&pm, "vm.ok", real_vm, expvm, model, h, pend_now, json!({"other": name, "verdict": v1, "reverse": v2}));
            self.judge(&["C17"], "vm.sym", json!(class(&v1) == class(&v2)), json!(true), None, h, pend_now, json!({"other": name}));
            if !misuse && ok.is_subset(&sys.know[who - 1]) {
                let mut c = s.clone();
                let o2 = (*os).clone();
                match catch(|| {
                    E::merge(&mut c, o2);
                    c
                }) {
                    Ok(c) => {
                        let m = if name.starts_with('r') { mv(&ob["stale"], name[1..].parse::<usize>().unwrap() - 1) } else { None };
                        let r2 = E::reads_light(&c, &d);
                        self.judge(&p_reads, "stale.reads", json!(r2 == base_reads), json!(true), m.as_ref().and_then(|x| mv(x, 0)), h, pend_now, json!({"other": name}));
                        let p2 = E::proj(&c, &d);
                        self.judge(&p_state, "stale.state", json!(p2 == base_proj), json!(true), m.as_ref().and_then(|x| mv(x, 1)), h, pend_now, json!({"other": name}));
                    }
                    Err(e) => self.judge(&["C09"], "stale.panic", json!(e), json!(true), None, h, pend_now, json!({"other": name})),
                }
            }
        }
        // own validate_merge
        let vself = catch(|| E::validate_merge(s, s)).unwrap_or_else(|e| format!("PANIC {}", e));
        let model = ln["vm"].as_array().and_then(|a| a.get(who - 1)).cloned();
        self.judge(&["C17"], "vm.ok", json!(vself), json!("Ok"), model, h, pend_now, json!({"other": "self"}));

        // C20: replicas with equal knowledge compare equal with ==
        for q in 0..d.n {
            if !misuse && q + 1 != who && sys.know[q] == sys.know[who - 1] {
                let other = &sys.st[q];
                let r = catch(|| E::eq(s, other) && E::eq(other, s));
                let realv = match r {
                    Ok(b) => json!(b),
                    Err(_) => json!("PANIC"),
                };
                // when the model says some register holds a pair twice the type's == may return
                // anything (its sanity assert fires depending on iteration order): any outcome is "what B does"
                let anyout = mv(&ob["dupair"], q) == Some(json!(true)) || mv(&ob["dupair"], who - 1) == Some(json!(true));
                let m = if anyout { Some(realv.clone()) } else { mv(&ob["eqk"], q) };
                let obs = if realv == json!("PANIC") { "eq.panic" } else { "eq.equal_knowledge" };
                self.judge(&["C20"], obs, realv, json!(true), m, h, pend_now, json!({"other": q + 1}));
            }
        }

        // C20: == is structural equality, in both directions: two replicas whose (canonical) private states differ
        // never compare equal
        for q in 0..d.n {
            if !misuse && q + 1 != who {
                let other = &sys.st[q];
                let anyout = mv(&ob["dupair"], q) == Some(json!(true)) || mv(&ob["dupair"], who - 1) == Some(json!(true));
                if anyout || E::proj(other, &d) == base_proj {
                    continue;
                }
                match catch(|| E::eq(s, other) || E::eq(other, s)) {
                    Ok(b) => self.judge(&["C20"], "eq.sound", json!(b), json!(false), None, h, pend_now, json!({"other": q + 1})),
                    Err(_) => self.judge(&["C20"], "eq.panic", json!("PANIC"), json!(false), None, h, pend_now, json!({"other": q + 1})),
                }
            }
        }

        // C02: merge laws on all triples of jointly reachable states
        if self.opts.laws && !misuse {
            let mut pool: Vec<&E::S> = sys.st.iter().collect();
            if let Some((ss, _)) = sys.snap.as_ref() {
                pool.push(ss);
            }
            let mg = |a: &E::S, b: &E::S| -> Result<E::S, String> {
                let mut c = a.clone();
                let b2 = b.clone();
                catch(move || {
                    E::merge(&mut c, b2);
                    c
                })
            };
            for (ia, a) in pool.iter().enumerate() {
                // idempotence
                let nrep = d.n;
                if let Ok(aa) = mg(a, a) {
                    let m = if ia < nrep { mv(&ob["idem"], ia) } else { None };
                    self.judge(&["C02"], "law.idem.reads", json!(E::reads_light(&aa, &d) == E::reads_light(a, &d)), json!(true), m.as_ref().and_then(|x| mv(x, 0)), h, pend_now, json!({"a": ia + 1}));
                    self.judge(&["C02", "C20"], "law.idem.state", json!(E::proj(&aa, &d) == E::proj(a, &d)), json!(true), m.as_ref().and_then(|x| mv(x, 1)), h, pend_now, json!({"a": ia + 1}));
                }
                for (ib, b) in pool.iter().enumerate() {
                    if ib == ia {
                        continue;
                    }
                    let ab = mg(a, b);
                    let ba = mg(b, a);
                    if let (Ok(ab), Ok(ba)) = (&ab, &ba) {
                        if ia < ib {
                            let m = if ia < nrep && ib < nrep { mv(&ob["comm"], ia).and_then(|x| mv(&x, ib)) } else { None };
                            self.judge(&["C02"], "law.comm.reads", json!(E::reads_light(ab, &d) == E::reads_light(ba, &d)), json!(true), m.as_ref().and_then(|x| mv(x, 0)), h, pend_now, json!({"a": ia + 1, "b": ib + 1}));
                            self.judge(&["C02", "C20"], "law.comm.state", json!(E::proj(ab, &d) == E::proj(ba, &d)), json!(true), m.as_ref().and_then(|x| mv(x, 1)), h, pend_now, json!({"a": ia + 1, "b": ib + 1}));
                        }
                    } else {
                        self.judge(&["C02"], "law.panic", json!("PANIC"), json!(true), None, h, pend_now, Value::Null);
                    }
                    if let Ok(ab) = &ab {
                        for (ic, c) in pool.iter().enumerate() {
                            if ic == ia || ic == ib {
                                continue;
                            }
                            let l = mg(ab, c);
                            let r = mg(b, c).and_then(|bc| mg(a, &bc));
                            if let (Ok(l), Ok(r)) = (l, r) {
                                let m = if ia < nrep && ib < nrep && ic < nrep { mv(&ob["assoc"], ia).and_then(|x| mv(&x, ib)).and_then(|x| mv(&x, ic)) } else { None };
                                self.judge(&["C02"], "law.assoc.reads", json!(E::reads_light(&l, &d) == E::reads_light(&r, &d)), json!(true), m.as_ref().and_then(|x| mv(x, 0)), h, pend_now, json!({"a": ia + 1, "b": ib + 1, "c": ic + 1}));
                                self.judge(&["C02", "C20"], "law.assoc.state", json!(E::proj(&l, &d) == E::proj(&r, &d)), json!(true), m.as_ref().and_then(|x| mv(x, 1)), h, pend_now, json!({"a": ia + 1, "b": ib + 1, "c": ic + 1}));
                            }
                        }
                    }
                }
            }
        }

        // C18: reset_remove against layer A for every clock of the bounded universe
        // (only where the real pre-state is the model's: the expectation is the declarative reset of
        //  THAT state; on a drifted state a difference would say nothing about reset_remove itself)
        if E::HAS_RESET && base_proj == E::canon_b(&ln["B"]) {
            if let Some(rs) = ln["rs"].as_array() {
                for item in rs.iter() {
                    let c: Vec<u64> = item[0].as_array().unwrap().iter().map(|x| x.as_u64().unwrap()).collect();
                    let expst = E::canon_b(&item[1]);
                    let mut cl = s.clone();
                    let c2 = c.clone();
                    match catch(move || {
                        E::reset(&mut cl, &c2);
                        cl
                    }) {
                        Ok(cl) => {
                            let p = E::proj(&cl, &d);
                            if p == expst {
                                self.rep.eval(&["C18"]);
                            } else {
                                let dd = first_diff(&p, &expst, "").unwrap();
                                self.judge(&["C18"], &format!("reset.{}", dd.0), dd.1, dd.2, None, h, pend_now, json!({"clock": c}));
                            }
                            // laws: idempotent
                            let mut c3 = cl.clone();
                            E::reset(&mut c3, &c);
                            self.judge(&["C18"], "reset.idem", json!(E::proj(&c3, &d) == p), json!(true), None, h, pend_now, json!({"clock": c}));
                        }
                        Err(e) => self.judge(&["C18"], "reset.panic", json!(e), json!(true), None, h, pend_now, json!({"clock": c})),
                    }
                }
            }
        }
    }
}

fn dims_of<E: Engine>(ln: &Value, n: usize) -> Dims {
    let m = ln["B"]["entries"].as_array().map(|a| a.len()).unwrap_or(0);
    Dims { n, m, k: m }
}

pub fn jmap(pairs: Vec<(&str, Value)>) -> Value {
    let mut m = JMap::new();
    for (k, v) in pairs {
        m.insert(k.to_string(), v);
    }
    Value::Object(m)
}

/// dense clock array from a serialised VClock (Tree::Map actor -> counter)
pub fn clock_arr(t: &Tree, n: usize, zero_flag: &mut bool) -> Value {
    // an explicit zero counter (residue no correct clock holds) is rendered as -1: the same JSON / TLA+ type as
    // any clock, equal to no clock of the model
    let mut v = vec![0i64; n];
    for (a, c) in t.map() {
        let a = a.u() as usize;
        let c = c.u();
        if c == 0 {
            *zero_flag = true;
        }
        if a >= 1 && a <= n {
            v[a - 1] = if c == 0 { -1 } else { c as i64 };
        } else {
            panic!("actor {} outside 1..{}", a, n);
        }
    }
    json!(v)
}
