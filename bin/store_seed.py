#!/usr/bin/env python3
"""dev aid: store a confirmed sub-agent seed.  usage: store_seed.py <H8> <A|B> <Cxx> <round> <origin-text-key>"""
import json, os, shutil, sys
seed, sub, prop, rnd = sys.argv[1], sys.argv[2], sys.argv[3], int(sys.argv[4])
origin = {"hard": "round 4 (hard mode): the sub-agent was told the framework's bounds (exhaustive up to 3 replicas x 2 elements x 3-4 ops, random with 4 replicas x ~12 ops) and asked for a change out of their reach"}[sys.argv[5]]
titles = {l['id']: l['title'] for l in map(json.loads, open('/verif/properties.jsonl'))}
src = '/tmp/seed_%s/%s' % (seed, sub)
dst = '/verif/seeded/%s-%s' % (seed, sub)
os.makedirs(dst, exist_ok=True)
for f in ['patch.diff', 'demo.rs', 'demo_how.txt', 'notes.txt', 'confirm.log']:
    if os.path.exists(os.path.join(src, f)):
        shutil.copy(os.path.join(src, f), dst)
notes = open(os.path.join(src, 'notes.txt')).read().strip().split('\n')
meta = {"id": "%s-%s" % (seed, sub), "breaks_property": prop, "property_title": titles[prop], "round": rnd, "origin": origin,
        "needs_to_manifest": notes,
        "confirmed_by_me": {"where": "scratch worktree /tmp/wt_%s (removed afterwards)" % seed, "commands": [
            "cargo run --offline --example <demo> (without patch) -> exit 0", "git apply patch.diff; cargo build --offline",
            "cargo run --offline --example <demo> (with patch) -> non-zero exit",
            "cargo test --offline -- --skip prop_op_reordering_converges (with patch) -> see confirm.log"], "log": "confirm.log"}}
json.dump(meta, open(os.path.join(dst, 'meta.json'), 'w'), indent=1)
print("stored", dst)
