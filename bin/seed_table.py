#!/usr/bin/env python3
"""dev aid: regenerate seeded/RESULTS.md from seeded/*/meta.json and results.json"""
import json, os, glob
V = "/verif/seeded"
rows = []
for d in sorted(glob.glob(V + "/*/")):
    sid = os.path.basename(d.rstrip("/"))
    try:
        meta = json.load(open(d + "meta.json"))
    except Exception:
        continue
    res = json.load(open(d + "results.json")) if os.path.exists(d + "results.json") else None
    files = [l.split(" b/")[-1].strip() for l in open(d + "patch.diff") if l.startswith("diff --git")]
    summary = meta.get("summary") or " ".join(meta.get("needs_to_manifest", [])[:2])[:160]
    if res:
        caught = [p for p, v in sorted(res["results"].items()) if v["exit"] == 1]
        errs = [p for p, v in sorted(res["results"].items()) if v["exit"] not in (0, 1)]
        own = meta["breaks_property"] in caught
        first = res["results"].get(meta["breaks_property"], {}).get("first") or {}
        how = "%s %s" % (first.get("engine", ""), first.get("obs", "")) if own else ""
    else:
        caught, errs, own, how = [], [], None, ""
    rows.append((sid, meta["breaks_property"], ", ".join(files), summary, caught, errs, own, how, res.get("at") if res else ""))
out = ["# Seeded changes and which checks catch them", "",
       "Each change was written by a fresh sub-agent given only the text of one property and a scratch worktree;",
       "I confirmed each in a scratch worktree (compiles; `cargo test --offline -- --skip prop_op_reordering_converges` passes: 34 + 98 + 25;",
       "the demo exits 0 without and non-zero with the change), then ran all 20 quick checks against it (`bin/try_seed.py`).",
       "`own` = the check of the property the change was written against raised a VIOLATION.", "",
       "| seed | written against | files | caught by (quick checks exiting 1) | own | first record of the own check |", "|---|---|---|---|---|---|"]
n_own = 0
for sid, prop, files, summary, caught, errs, own, how, at in rows:
    n_own += 1 if own else 0
    out.append("| %s | %s | %s | %s%s | %s | %s |" % (sid, prop, files, " ".join(caught) or "—", (" (tool errors: %s)" % " ".join(errs)) if errs else "",
                                                   {True: "yes", False: "**no**", None: "not run"}[own], how))
out += ["", "%d seeds, %d caught by their own property's check, %d caught by at least one check." % (len(rows), n_own, sum(1 for r in rows if r[4])), ""]
open(V + "/RESULTS.md", "w").write("\n".join(out))
print("\n".join(out[-3:]))
