#!/usr/bin/env python3
"""dev aid: run the quick checks against one seeded change.
usage: try_seed.py <seed-id> [props...]   (seed in /verif/seeded/<seed-id>/patch.diff)
Applies the patch to /repo, runs bin/check for the given (default: all) properties, restores /repo,
and writes /verif/seeded/<seed-id>/results.json (which checks raised a VIOLATION)."""
import sys, os, json, subprocess, time
VERIF = "/verif"
sid = sys.argv[1]
props = sys.argv[2:] or ["C%02d" % i for i in range(1, 21)]
sdir = os.path.join(VERIF, os.environ.get("SEED_BASE", "seeded"), sid)
patch = os.path.join(sdir, "patch.diff")
import hashlib, glob
def norm(path):
    # the change itself: added/removed lines only (index/hunk headers and context differ between agents)
    lines = [l for l in open(path) if (l.startswith("+") or l.startswith("-")) and not l.startswith("+++") and not l.startswith("---")]
    return hashlib.sha256("".join(lines).encode()).hexdigest()
mine = norm(patch)
if not sys.argv[2:]:
    for other in sorted(glob.glob(os.path.join(VERIF, "seeded", "*", "results.json"))):
        od = os.path.dirname(other)
        if od != sdir and os.path.exists(os.path.join(od, "patch.diff")) and norm(os.path.join(od, "patch.diff")) == mine:
            r = json.load(open(other))
            if r.get("same_change_as"):
                continue
            r["seed"] = sid
            r["same_change_as"] = os.path.basename(od)
            json.dump(r, open(os.path.join(sdir, "results.json"), "w"), indent=1)
            print(sid, "is the same source change as", os.path.basename(od), "- results copied; caught by", [p for p, v in r["results"].items() if v["exit"] == 1])
            sys.exit(0)
st = subprocess.run(["git", "-C", "/repo", "status", "--porcelain", "--untracked-files=no"], stdout=subprocess.PIPE, text=True).stdout.strip()
if st:
    print("refusing: /repo has local changes:\n" + st); sys.exit(2)
r = subprocess.run(["git", "-C", "/repo", "apply", patch])
if r.returncode != 0:
    print("patch does not apply"); sys.exit(2)
res = {"seed": sid, "results": {}, "at": time.strftime("%Y-%m-%d %H:%M:%S")}
try:
    for p in props:
        t0 = time.time()
        q = subprocess.run([os.path.join(VERIF, "bin", "check"), p, "--tier", "quick"], stdout=subprocess.PIPE, stderr=subprocess.STDOUT, text=True, cwd=VERIF)
        viol = [l for l in q.stdout.splitlines() if l.startswith("VIOLATION")]
        first = None
        if viol:
            try:
                rec = json.load(open(viol[0].split("replay=")[1]))["record"]
                first = {"engine": rec.get("engine"), "obs": rec.get("obs"), "h": rec.get("h"), "real": rec.get("real"), "A": rec.get("A")}
            except Exception as e:
                first = {"error": str(e)}
        res["results"][p] = {"exit": q.returncode, "violations": len(viol), "first": first, "wall_s": round(time.time() - t0, 1),
                             "tail": q.stdout.strip().splitlines()[-1][:300] if q.stdout.strip() else ""}
        print(sid, p, "exit", q.returncode, "violations", len(viol), flush=True)
finally:
    subprocess.run(["git", "-C", "/repo", "checkout", "--", "."])
json.dump(res, open(os.path.join(sdir, "results.json"), "w"), indent=1)
caught = [p for p, v in res["results"].items() if v["exit"] == 1]
print(sid, "caught by", caught)
