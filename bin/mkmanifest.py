#!/usr/bin/env python3
"""Regenerate MANIFEST.json from the engine/property tables (bin/engines.py) and the texts below."""
import json, os, sys
sys.path.insert(0, os.path.dirname(os.path.abspath(__file__)))
from engines import ENGINES, PROPS

VERIF = os.path.dirname(os.path.dirname(os.path.abspath(__file__)))

TEXT = {
 "C01": ("op-based convergence under causal delivery", "6 C01"),
 "C02": ("merge is commutative, associative, idempotent on jointly reachable states", "6 C02"),
 "C03": ("merging states reads as applying the union of the ops (hybrid replication)", "6 C03"),
 "C04": ("Orswot reads/contexts equal the declarative observed-remove add-wins set of the ops learned", "6 C04"),
 "C05": ("Map key presence and nested contents equal the declarative reset-remove map of the ops learned", "6 C05"),
 "C06": ("MVReg read is the bag of causally maximal writes", "6 C06"),
 "C07": ("read contexts are exact, derived dots are fresh", "6 C07"),
 "C08": ("removes that overtake what they observed are deferred and not lost (per-actor FIFO delivery suffices)", "6 C08"),
 "C09": ("duplicate ops and stale states are absorbed", "6 C09"),
 "C10": ("VClock order/join/meet/forget/intersection/validate_op equal their pointwise definitions", "6 C10"),
 "C11": ("counters, LWW/Max/Min registers and GSet read their exact aggregate", "6 C11"),
 "C12": ("List: one global element order under causal delivery", "6 C12"),
 "C13": ("List/GList edits land at the requested index", "6 C13"),
 "C14": ("Identifier order is total, dense, between() lands strictly inside", "6 C14"),
 "C15": ("MerkleReg content is a function of the node set; read = heads", "6 C15"),
 "C16": ("validate_op accepts in-order ops and rejects gaps", "6 C16"),
 "C17": ("validate_merge is Ok under correct use, symmetric, flags reused dots", "6 C17"),
 "C18": ("reset_remove forgets exactly what the clock covers", "6 C18"),
 "C19": ("serde_json round trip of every reachable state and op, continuing on the restored copy", "6 C19"),
 "C20": ("equal knowledge gives == states; no residue once a remove is fully delivered", "6 C20"),
}

def main():
    checks, na = [], []
    for i in range(1, 21):
        p = "C%02d" % i
        engines = [e for e in ENGINES if p in ENGINES[e]["serves"]]
        if not engines:
            na.append({"property_id": p, "reason": PROPS[p].get("na_reason", "engine for this property not built yet in this round (see DESIGN.md section 6 for the plan); not claimed until its check exists")})
            continue
        txt, ref = TEXT[p]
        cfgs = sum(len(ENGINES[e]["configs"]["quick"]) for e in engines)
        checks.append({
            "property_id": p,
            "quick_cmd": "bin/check %s --tier quick" % p,
            "thorough_cmd": "bin/check %s --tier thorough" % p,
            "evidence_file": "/verif/evidence/%s.json" % p,
            "replay_cmd_template": "bin/check replay {path}",
            "engine": "+".join(engines),
            "level_claimed": {
                "category": "model_checking",
                "text": ("TLC explores the explicit TLA+ specification (layer B = the library's algorithm, layer A = the declarative meaning) exhaustively for small constants and decides: %s. "
                         "Every transition TLC generates is replayed on the real code (path from Init through the public API) and the real reads / contexts / verdicts are compared with layer A, the full internal state with layer B; "
                         "random histories of the real code are validated against the same spec. Engines: %s.") % (txt, ", ".join(engines)),
                "design_ref": "DESIGN.md section " + ref,
            },
            "level_note": "Bounded: exhaustive only within the constants of the .cfg files (2-3 replicas, 1-2 elements/keys, 3-4 API ops, plus scenario configs that start from a scripted state; random histories beyond). Trusted: TLC, the TLA+ transcription of layer A, the harness's JSON projection. A VIOLATION is printed only when an observable of the real code contradicts layer A and is not an occurrence of a listed known finding in which the code does exactly what the pinned algorithm does. A panic, hang or crash of the library while a behaviour is replayed is reported as a violation too (DESIGN 3.4)."
                          + (" Two supplementary probes that are NOT bound to the TLA+ text run with the list and merkle engines (40-200 inserts into one gap; a node with 40-100 children): sizes TLC's 32-bit integers / state space cannot follow (DESIGN 9)." if ("list" in engines or "merkle" in engines) else ""),
            "technique": "explicit TLA+ spec + TLC exhaustive model checking; spec->impl replay of every TLC transition and impl->spec trace validation",
        })
    m = {
        "version": 1,
        "setup_cmd": "bin/check setup",
        "hooks": {
            "guard": "crdts_verif",
            "enable": "no source hook is needed: the harness (built with --cfg crdts_verif, a path dependency on /repo) reads the complete internal state through the types' own Serialize impls with a structure-preserving serializer",
            "baseline_off_cmd": "cd /repo && cargo nextest run --workspace --no-fail-fast --tool-config-file pb:/w/lib/nextest.toml --profile pb --test-threads 8 --offline",
            "source_commits": [],
            "add_only": True,
        },
        "engines": [{"name": e, "path": "spec/", "serves_properties": ENGINES[e]["serves"],
                     "kind_free_text": ENGINES[e].get("doc", "TLA+ system module + TLC configs + Rust replay/trace harness")} for e in ENGINES],
        "checks": checks,
        "not_applicable": na,
        "notes": "Two genuine defects were repaired in /repo as 'fix:' commits (4c1b5ee reset_remove, 0078d8a Map::validate_op); the remaining ones are listed in known_findings.json and DESIGN.md section 5.",
    }
    json.dump(m, open(os.path.join(VERIF, "MANIFEST.json"), "w"), indent=1)
    print("claimed:", [c["property_id"] for c in checks], "n/a:", [x["property_id"] for x in na])

main()
