#!/usr/bin/env python3
"""dev aid: the table of DESIGN section 7 from the cached engine results (work/results/<engine>-<tier>-*.json)"""
import json, glob, os, sys
tier = sys.argv[1] if len(sys.argv) > 1 else "quick"
rows = []
tot = [0, 0, 0, 0.0, 0.0, 0, 0]
for f in sorted(glob.glob("/verif/work/results/*-%s-*.json" % tier), key=os.path.getmtime):
    r = json.load(open(f))
    cfgs = r["configs"]
    st = sum(c["tlc"]["distinct"] for c in cfgs)
    ln = sum(c["lines"] for c in cfgs)
    tl = sum(c["tlc"]["tlc_s"] for c in cfgs)
    rp = sum(c.get("replay_s", 0) for c in cfgs)
    hs = sum(t.get("histories", 0) for t in r.get("traces", []))
    ev = sum(t.get("events", 0) for t in r.get("traces", []))
    rows.append((r["engine"], len(cfgs), st, ln, tl, rp, hs, ev))
    for i, v in enumerate((len(cfgs), st, ln, tl, rp, hs, ev)):
        tot[i] += v
print("| engine | configs | distinct states | transitions replayed on the real code | TLC | replay | impl histories / events validated |")
print("|---|---|---|---|---|---|---|")
for e, n, st, ln, tl, rp, hs, ev in rows:
    print("| %s | %d | %s | %s | %.0f s | %.0f s | %s |" % (e, n, f"{st:,}".replace(",", " "), f"{ln:,}".replace(",", " "), tl, rp, ("%d / %s" % (hs, f"{ev:,}".replace(",", " "))) if hs else "—"))
print("| **total** | **%d** | **%s** | **%s** | ≈ %.1f min | ≈ %.1f min | %d / %s |" % (tot[0], f"{tot[1]:,}".replace(",", " "), f"{tot[2]:,}".replace(",", " "), tot[3] / 60, tot[4] / 60, tot[5], f"{tot[6]:,}".replace(",", " ")))
