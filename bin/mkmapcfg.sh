#!/bin/bash
# dev aid: write a Map config   usage: mkmapcfg.sh name desc nreps nkeys nmem nvals maxops regime merge snap reset "invs" "comment"
cat > /verif/spec/$1.cfg <<EOT
\\* ${13}
CONSTANTS
  DescName = "$2"
  NReps = $3
  NKeys = $4
  NMembers = $5
  NVals = $6
  MaxOps = $7
  Regime = "$8"
  UseMerge = $9
  UseSnap = ${10}
  UseDup = FALSE
  RmVia = ${RMVIA:-FALSE}
  DumpReset = ${11}
  ScriptName = "${SCRIPT:-none}"
  Reps <- MCReps
  Actors <- MCActors
  Keys <- MCKeys
  Members <- MCMembers
  MvVals <- MCVals
  ActorOf <- MCActorOf
  ValDesc <- MCDesc
INIT ${INITOP:-Init}
NEXT Next
VIEW View
ACTION_CONSTRAINT Edge
INVARIANTS ${12}
CHECK_DEADLOCK FALSE
EOT
