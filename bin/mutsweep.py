#!/usr/bin/env python3
"""Development aid: a mechanical mutation sweep over /repo/src, run against the registered checks.

  mutsweep.py gen                      list the mutants -> work/mutants/list.json
  mutsweep.py run [--workers N] [--sample M] [--files a.rs,b.rs] [--seed S]
                                       run the quick checks against each mutant in private copies of
                                       /repo and /verif under /tmp/ms (neither /repo nor /verif is touched)
  mutsweep.py tests                    run the library's own test suite on the survivors
  mutsweep.py report                   summary table

Nothing registered in MANIFEST.json depends on this script.  A mutant is *killed* when some check prints
VIOLATION, *nocompile* when the harness build fails, *survived* otherwise.  Survivors are then run against the
library's own tests: those that pass them and are not equivalent are the interesting ones (DESIGN 11.2).
"""
import sys, os, re, json, subprocess, random, shutil, time, hashlib
from concurrent.futures import ThreadPoolExecutor

VERIF = os.path.dirname(os.path.dirname(os.path.abspath(__file__)))
REPO = "/repo"
OUT = os.path.join(VERIF, "work", "mutants")
MS = "/tmp/ms"
ORDER = ["C01", "C04", "C05", "C06", "C10", "C11", "C12", "C13", "C14", "C15", "C16", "C17", "C18", "C19",
         "C07", "C08", "C09", "C02", "C03", "C20"]

FIRST = {"vclock.rs": ["C10"], "dot.rs": ["C10"], "identifier.rs": ["C14"], "lwwreg.rs": ["C11"], "maxreg.rs": ["C11"], "minreg.rs": ["C11"],
         "gset.rs": ["C11"], "gcounter.rs": ["C11"], "pncounter.rs": ["C11"], "merkle_reg.rs": ["C15"], "mvreg.rs": ["C06"],
         "orswot.rs": ["C04"], "map.rs": ["C05"], "list.rs": ["C12", "C13"], "glist.rs": ["C13"], "ctx.rs": ["C07"]}
SKIP_FILES = {"lib.rs", "quickcheck.rs", "serde_helper.rs", "vvwe.rs"}

# (name, regex, replacement) applied to one occurrence on one line
OPS = [
    ("lt->le", r" < ", " <= "), ("le->lt", r" <= ", " < "),
    ("gt->ge", r" > ", " >= "), ("ge->gt", r" >= ", " > "),
    ("eq->ne", r" == ", " != "), ("ne->eq", r" != ", " == "),
    ("and->or", r" && ", " || "), ("or->and", r" \|\| ", " && "),
    ("plus1->plus0", r" \+ 1\b", " + 0"), ("minus1->minus0", r" - 1\b", " - 0"),
    ("not->id", r"\bif !", "if "), ("id->not", r"\bif (?!let\b)(?!!)(.*) \{\s*$", r"if !(\1) {"),
    ("all->any", r"\.all\(", ".any("), ("any->all", r"\.any\(", ".all("),
    ("some->none", r"\.is_some\(\)", ".is_none()"), ("none->some", r"\.is_none\(\)", ".is_some()"),
    ("first->last", r"\.first\(\)", ".last()"), ("last->first", r"\.last\(\)", ".first()"),
    ("next->next_back", r"\.next\(\)", ".next_back()"), ("next_back->next", r"\.next_back\(\)", ".next()"),
    ("rev->id", r"\.rev\(\)", ""),
    ("swap_self_other", r"^(?=.*\bself\.)(?=.*\bother\.)(.*)$", "SWAP"),
    ("while->if", r"\bwhile (?!let\b)", "if "),
    # round 2: direction reversals, clock-variable confusions, dropped match alternatives
    ("lt->gt", r" < ", " > "), ("gt->lt", r" > ", " < "), ("le->ge", r" <= ", " >= "), ("ge->le", r" >= ", " <= "),
    ("plus1->plus2", r" \+ 1\b", " + 2"),
    ("drop_none_alt", r"None \| ", ""), ("less<->greater_pat", r"Some\(Ordering::Greater\)", "Some(Ordering::Less)"),
    ("less<->greater_pat2", r"Some\(Ordering::Less\)", "Some(Ordering::Greater)"),
    ("clone_without->clone", r"\.clone_without\(&[a-z_\.]+\)", ".clone()"),
    ("self.clock->other.clock", r"\bself\.clock\b", "other.clock"), ("other.clock->self.clock", r"\bother\.clock\b", "self.clock"),
    ("entry.clock->self.clock", r"\bentry\.clock\b", "self.clock"), ("&clock->&self.clock", r"\(&clock\)", "(&self.clock)"),
    ("&self.clock->&clock", r"\(&self\.clock\)", "(&clock)"),
    ("glb->merge", r"\.glb\(", ".merge("), ("intersection_args", r"VClock::intersection\(&([a-z_\.]+), ([a-z_\.&]+)\)", r"VClock::intersection(&\1, &\1)"),
    ("is_empty->false", r"[a-z_\.]+\.is_empty\(\)", "false"),
    ("counter->counter-1", r"\bdot\.counter\b", "(dot.counter - 1)"),
    ("less->greater", r"Ordering::Less", "Ordering::Greater"), ("greater->less", r"Ordering::Greater", "Ordering::Less"),
    ("min->max", r"\.min\(", ".max("), ("max->min", r"\.max\(", ".min("),
    ("true->false", r"\btrue\b", "false"), ("false->true", r"\bfalse\b", "true"),
    ("some->none_cmp", r"Some\(Ordering::Equal\)", "Some(Ordering::Less)"),
    ("ok->skip", r"^(\s*)([a-z_\.]+(?:\([^;]*\))?\.(?:apply|merge|reset_remove|apply_deferred|apply_rm|apply_keyset_rm|insert|remove|retain|extend|push|clear)\([^;]*\);)\s*$", r"\1// \2"),
    ("return_early", r"^(\s*)return;\s*$", r"\1"),
    ("continue_drop", r"^(\s*)continue;\s*$", r"\1"),
]


def code_lines(path):
    """yield (lineno, text) for non-test, non-comment lines"""
    txt = open(path).read().split("\n")
    depth_cut = None
    for i, l in enumerate(txt):
        if re.match(r"\s*#\[cfg\(test\)\]", l) or re.match(r"\s*#\[cfg\(feature = \"quickcheck\"\)\]", l):
            depth_cut = i
            break
    end = depth_cut if depth_cut is not None else len(txt)
    for i in range(end):
        s = txt[i].strip()
        if not s or s.startswith("//") or s.startswith("#[") or s.startswith("use ") or s.startswith("pub use"):
            continue
        if re.match(r"(pub )?(fn|impl|struct|enum|trait|type|where)\b", s) or s.startswith("impl<"):
            continue
        yield i, txt[i]


def gen():
    os.makedirs(OUT, exist_ok=True)
    muts = []
    for f in sorted(os.listdir(os.path.join(REPO, "src"))):
        if not f.endswith(".rs") or f in SKIP_FILES:
            continue
        path = os.path.join(REPO, "src", f)
        for i, l in code_lines(path):
            code = l.split("//")[0]
            for name, rx, rep in OPS:
                for k, m in enumerate(re.finditer(rx, code)):
                    if rep == "SWAP":
                        new = re.sub(r"\b(self|other)\.", lambda x: ("other." if x.group(1) == "self" else "self."), code) + l[len(code):]
                    else:
                        new = code[:m.start()] + m.expand(rep) + code[m.end():] + l[len(code):]
                    if new == l:
                        continue
                    mid = hashlib.sha1(("%s:%d:%s:%d" % (f, i, name, k)).encode()).hexdigest()[:8]
                    muts.append({"id": mid, "file": f, "line": i + 1, "op": name, "before": l.strip(), "after": new.strip(), "new": new})
    json.dump(muts, open(os.path.join(OUT, "list.json"), "w"), indent=0)
    by = {}
    for m in muts:
        by[m["file"]] = by.get(m["file"], 0) + 1
    print(len(muts), "mutants", by)


def setup_worker(i):
    w = os.path.join(MS, "w%d" % i)
    os.makedirs(w, exist_ok=True)
    subprocess.run(["rsync", "-a", "--delete", "--exclude", ".git", "--exclude", "target", REPO + "/", os.path.join(w, "repo/")], check=True)
    dl = os.path.join(w, "verif", "work", "dumps")
    subprocess.run(["rsync", "-a", "--exclude", ".git", "--exclude", "work/dumps", "--exclude", "work/results", "--exclude", "work/replays", "--exclude", "harness/target", "--exclude", "work/res-*", "--exclude", "work/mutants", "--exclude", "work/traces*",
                    "--exclude", "work/cache", "--exclude", "work/*.log", "--exclude", "seeded", "--exclude", "benign",
                    VERIF + "/", os.path.join(w, "verif/")], check=True)
    if os.path.islink(dl):
        os.remove(dl)
    if os.path.isdir(dl):
        shutil.rmtree(dl)
    # TLC dump cache: hard links (no extra disk; a deletion in one copy does not affect the others)
    subprocess.run(["cp", "-al", os.path.join(VERIF, "work", "dumps"), dl], check=True)
    ct = os.path.join(w, "verif", "harness", "Cargo.toml")
    t = open(ct).read().replace('path = "/repo"', 'path = "%s"' % os.path.join(w, "repo"))
    open(ct, "w").write(t)
    return w


def run_one(w, m):
    repo = os.path.join(w, "repo")
    verif = os.path.join(w, "verif")
    path = os.path.join(repo, "src", m["file"])
    orig = open(path).read()
    lines = orig.split("\n")
    lines[m["line"] - 1] = m["new"]
    res = {"id": m["id"], "file": m["file"], "line": m["line"], "op": m["op"], "before": m["before"], "after": m["after"]}
    t0 = time.time()
    try:
        open(path, "w").write("\n".join(lines))
        env = dict(os.environ, VERIF_REPO=repo, CARGO_NET_OFFLINE="true", VERIF_ENGINE_JOBS="3")
        b = subprocess.run(["cargo", "build", "--release", "--offline"], cwd=os.path.join(verif, "harness"), env=env,
                           stdout=subprocess.PIPE, stderr=subprocess.STDOUT, text=True)
        if b.returncode != 0:
            res["status"] = "nocompile"
            return res
        res["status"] = "survived"
        res["exits"] = {}
        first = FIRST.get(m["file"], [])
        for p in first + [x for x in ORDER if x not in first]:
            q = subprocess.run([os.path.join(verif, "bin", "check"), p, "--tier", "quick"], cwd=verif, env=env,
                               stdout=subprocess.PIPE, stderr=subprocess.STDOUT, text=True)
            res["exits"][p] = q.returncode
            if q.returncode == 1 and "VIOLATION" in q.stdout:
                res["status"] = "killed"
                res["by"] = p
                v = [l for l in q.stdout.splitlines() if l.startswith("VIOLATION")][0]
                try:
                    rec = json.load(open(v.split("replay=")[1]))["record"]
                    res["first"] = {"engine": rec.get("engine"), "obs": rec.get("obs")}
                except Exception:
                    pass
                break
            if q.returncode not in (0, 1):
                res.setdefault("toolerr", []).append([p, q.stdout.strip().splitlines()[-1][:200] if q.stdout.strip() else ""])
        return res
    finally:
        open(path, "w").write(orig)
        res["wall_s"] = round(time.time() - t0, 1)
        # engine result caches of this mutant are useless afterwards
        for f in os.listdir(os.path.join(verif, "work")):
            if f.startswith("res-") or f.startswith("viol"):
                fp = os.path.join(verif, "work", f)
                try:
                    shutil.rmtree(fp) if os.path.isdir(fp) else os.remove(fp)
                except OSError:
                    pass


def run(args):
    nw = int(args.get("--workers", 4))
    muts = json.load(open(os.path.join(OUT, "list.json")))
    if "--files" in args:
        fs = set(args["--files"].split(","))
        muts = [m for m in muts if m["file"] in fs]
    if "--ops" in args:
        os_ = set(args["--ops"].split(","))
        muts = [m for m in muts if m["op"] in os_]
    done = {}
    rp = os.path.join(OUT, "results.jsonl")
    if os.path.exists(rp):
        for l in open(rp):
            r = json.loads(l)
            done[r["id"]] = r
    muts = [m for m in muts if m["id"] not in done]
    random.Random(int(args.get("--seed", 1))).shuffle(muts)
    if "--sample" in args:
        muts = muts[:int(args["--sample"])]
    print("running", len(muts), "mutants on", nw, "workers", flush=True)
    workers = [setup_worker(i) for i in range(nw)]
    import queue
    q = queue.Queue()
    for w in workers:
        q.put(w)
    out = open(rp, "a")

    def job(m):
        w = q.get()
        try:
            r = run_one(w, m)
        except Exception as e:  # noqa
            r = {"id": m["id"], "status": "error", "err": str(e)}
        finally:
            q.put(w)
        out.write(json.dumps(r) + "\n")
        out.flush()
        print(r["id"], m["file"], m["line"], m["op"], r.get("status"), r.get("by", ""), r.get("wall_s"), flush=True)

    with ThreadPoolExecutor(max_workers=nw) as ex:
        list(ex.map(job, muts))


def tests(args):
    """library test suite on the survivors (one private repo copy per worker)"""
    nw = int(args.get("--workers", 3))
    rs = [json.loads(l) for l in open(os.path.join(OUT, "results.jsonl"))]
    muts = {m["id"]: m for m in json.load(open(os.path.join(OUT, "list.json")))}
    tp = os.path.join(OUT, "tests.jsonl")
    done = set()
    if os.path.exists(tp):
        done = {json.loads(l)["id"] for l in open(tp)}
    todo = [r for r in rs if r.get("status") == "survived" and r["id"] not in done]
    print(len(todo), "survivors to test", flush=True)
    import queue
    q = queue.Queue()
    for i in range(nw):
        w = os.path.join(MS, "t%d" % i)
        if os.path.exists(w):
            shutil.rmtree(w)
        subprocess.run(["rsync", "-a", "--exclude", ".git", "--exclude", "target", REPO + "/", w + "/"], check=True)
        q.put(w)
    out = open(tp, "a")

    def job(r):
        w = q.get()
        m = muts[r["id"]]
        path = os.path.join(w, "src", m["file"])
        orig = open(path).read()
        try:
            lines = orig.split("\n")
            lines[m["line"] - 1] = m["new"]
            open(path, "w").write("\n".join(lines))
            t0 = time.time()
            try:
                p = subprocess.run(["cargo", "test", "--offline", "--", "--skip", "prop_op_reordering_converges"], cwd=w,
                                   env=dict(os.environ, CARGO_NET_OFFLINE="true"), stdout=subprocess.PIPE, stderr=subprocess.STDOUT, text=True, timeout=1500)
                failed = sorted(set(re.findall(r"^test (\S+) \.\.\. FAILED", p.stdout, re.M)))
                rr = {"id": r["id"], "tests_exit": p.returncode, "failed": failed[:10], "wall_s": round(time.time() - t0)}
            except subprocess.TimeoutExpired:
                rr = {"id": r["id"], "tests_exit": "timeout", "failed": [], "wall_s": 1500}
        finally:
            open(path, "w").write(orig)
            q.put(w)
        out.write(json.dumps(rr) + "\n")
        out.flush()
        print(rr, flush=True)

    with ThreadPoolExecutor(max_workers=nw) as ex:
        list(ex.map(job, todo))


def report():
    rs = [json.loads(l) for l in open(os.path.join(OUT, "results.jsonl"))]
    ts = {}
    tp = os.path.join(OUT, "tests.jsonl")
    if os.path.exists(tp):
        ts = {json.loads(l)["id"]: json.loads(l) for l in open(tp)}
    n = {}
    for r in rs:
        n[r.get("status")] = n.get(r.get("status"), 0) + 1
    print(n)
    by = {}
    for r in rs:
        if r.get("status") == "killed":
            by[r["by"]] = by.get(r["by"], 0) + 1
    print("killed by (first check that fired):", dict(sorted(by.items())))
    print("survivors:")
    for r in rs:
        if r.get("status") == "survived":
            t = ts.get(r["id"])
            print(" ", r["id"], "%s:%d" % (r["file"], r["line"]), r["op"], "|", r["before"], "=>", r["after"], "| tests:",
                  (("pass" if t["tests_exit"] == 0 else "FAIL %s" % t["failed"][:3]) if t else "?"), r.get("toolerr", ""))


if __name__ == "__main__":
    a = sys.argv[1:]
    args = {}
    i = 1
    while i < len(a):
        if a[i].startswith("--") and i + 1 < len(a):
            args[a[i]] = a[i + 1]
            i += 2
        else:
            i += 1
    {"gen": gen, "run": lambda: run(args), "tests": lambda: tests(args), "report": report}[a[0]]()
