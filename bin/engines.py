"""Engine and property tables for bin/check.

An engine = one TLA+ system module (layer B + layer A for one type family)
with its bounded TLC configs (whose transition dumps are replayed on the real
code) and its trace-validation configs (random histories of the real code
checked against the spec)."""

INV_ORSWOT = ["TypeOK", "RefinesA", "Converge", "MergeLaws", "Hybrid", "DupNoop", "StaleNoop",
              "ValidateOpOK", "ValidateMergeSym", "ValidateMergeOKorKF", "CtxOK", "FreshDot"]

INV_MVREG = ["TypeOK", "RefinesA", "NoDuplicatePair", "Converge", "MergeLaws", "Hybrid", "DupNoop", "StaleNoop", "FreshDot"]

ENGINES = {
    "orswot": {
        "harness_engine": "orswot",
        "serves": ["C01", "C02", "C03", "C04", "C07", "C08", "C09", "C16", "C17", "C18", "C19", "C20"],
        "configs": {
            "quick": [
                {"cfg": "orswot_q2.cfg", "module": "MC_Orswot.tla", "flags": ["--persist", "--laws"], "invariants": INV_ORSWOT},
                {"cfg": "orswot_q3.cfg", "module": "MC_Orswot.tla", "flags": ["--persist", "--laws"], "invariants": INV_ORSWOT},
                {"cfg": "orswot_qall.cfg", "module": "MC_Orswot.tla", "flags": ["--persist", "--laws"], "invariants": INV_ORSWOT},
                {"cfg": "orswot_qsnap.cfg", "module": "MC_Orswot.tla", "flags": ["--persist", "--laws"], "invariants": INV_ORSWOT},
                {"cfg": "orswot_qreset.cfg", "module": "MC_Orswot.tla", "flags": [], "invariants": INV_ORSWOT + ["ResetLaws"]},
            ],
            "thorough": [],
        },
        "traces": {"quick": [], "thorough": []},
    },
}

MAP_SERVES = ["C01", "C02", "C03", "C05", "C07", "C08", "C09", "C16", "C17", "C18", "C19", "C20"]
INV_MAP = ["TypeOK", "KeysOK", "TopCtxOK", "FreshDot"]


def mapcfg(cfg, m, k, inv=INV_MAP, reset=False, **kw):
    d = {"cfg": cfg, "module": "MC_Map.tla", "flags": (["--persist", "--laws"] if not reset else []) + ["--m", str(m), "--k", str(k)],
         "invariants": inv}
    d.update(kw)
    return d


ENGINES.update({
    "mvreg": {
        "harness_engine": "mvreg",
        "serves": ["C01", "C02", "C03", "C06", "C07", "C08", "C09", "C18", "C19", "C20"],
        "configs": {"quick": [
            {"cfg": "mvreg_q3.cfg", "module": "MC_MVReg.tla", "flags": ["--persist", "--laws"], "invariants": INV_MVREG},
            {"cfg": "mvreg_q2.cfg", "module": "MC_MVReg.tla", "flags": ["--persist", "--laws"], "invariants": INV_MVREG},
            {"cfg": "mvreg_qsnap.cfg", "module": "MC_MVReg.tla", "flags": ["--persist", "--laws"], "invariants": INV_MVREG + ["ResetLaws"]},
        ], "thorough": []},
        "traces": {"quick": [], "thorough": []},
    },
    "map_or": {
        "harness_engine": "map_or", "serves": MAP_SERVES,
        "configs": {"quick": [
            mapcfg("map_or_qc.cfg", 1, 2, INV_MAP + ["ValsOK", "ConvergeReads", "MergeComm", "MergeIdem", "MergeAssoc", "ValidateMergeOK"]),
            mapcfg("map_or_q3.cfg", 1, 1, timeout=1200),
            mapcfg("map_or_qreset.cfg", 2, 2, INV_MAP + ["ResetLaws"], reset=True),
        ], "thorough": []},
        "traces": {"quick": [], "thorough": []},
    },
    "map_mv": {
        "harness_engine": "map_mv", "serves": MAP_SERVES,
        "configs": {"quick": [
            mapcfg("map_mv_qc.cfg", 1, 2, INV_MAP + ["MergeComm", "ValidateOpOK", "ValidateMergeOK"]),
            mapcfg("map_mv_q3.cfg", 1, 2, timeout=1200),
            mapcfg("map_mv_qreset.cfg", 1, 2, INV_MAP + ["ResetLaws"], reset=True),
        ], "thorough": []},
        "traces": {"quick": [], "thorough": []},
    },
    "map_map_mv": {
        "harness_engine": "map_map_mv", "serves": MAP_SERVES,
        "configs": {"quick": [mapcfg("map_map_mv_q.cfg", 1, 2, timeout=1200)], "thorough": []},
        "traces": {"quick": [], "thorough": []},
    },
    "map_map_or": {
        "harness_engine": "map_map_or", "serves": MAP_SERVES,
        "configs": {"quick": [mapcfg("map_map_or_q.cfg", 1, 1)], "thorough": []},
        "traces": {"quick": [], "thorough": []},
    },
})

INV_SIMPLE = ["TypeOK", "RefinesA", "ReadsOK", "MergeLaws", "DupNoop", "StaleNoop", "ValidateOpOK", "ValidateMergeOK", "ValidateMergeSym", "ResetLaws", "PROPERTY Monotone"]


def simplecfg(name, kind, extra=None):
    return {"cfg": "simple_%s.cfg" % name, "module": "MC_Simple.tla",
            "flags": (extra if extra is not None else ["--persist", "--laws"]) + ["--kind", kind], "invariants": INV_SIMPLE}


ENGINES.update({
    "clocks": {
        "harness_engine": "clocks",
        "serves": ["C10", "C02", "C16", "C18", "C11"],
        "doc": "MC_Clocks.tla: every pair of clocks of a bounded universe as one TLC state; declarative laws checked on the spec, every case printed as a test vector evaluated on the real VClock/Dot",
        "configs": {"quick": [{"cfg": "clocks_q.cfg", "module": "MC_Clocks.tla", "vectors": True,
                               "invariants": ["OrderOK", "LatticeOK", "ForgetOK", "DotOK"]}],
                    "thorough": [{"cfg": "clocks_q.cfg", "module": "MC_Clocks.tla", "vectors": True,
                                  "invariants": ["OrderOK", "LatticeOK", "ForgetOK", "DotOK"]},
                                 {"cfg": "clocks_t.cfg", "module": "MC_Clocks.tla", "vectors": True,
                                  "invariants": ["OrderOK", "LatticeOK", "ForgetOK", "DotOK"]}]},
        "traces": {"quick": [], "thorough": []},
    },
    "simple": {
        "harness_engine": "simple",
        "serves": ["C11", "C01", "C02", "C03", "C08", "C09", "C16", "C17", "C18", "C19"],
        "configs": {"quick": [
            simplecfg("gcounter", "gcounter"), simplecfg("gcounter3", "gcounter"), simplecfg("pncounter", "pncounter"),
            simplecfg("lww", "lww"), simplecfg("lwwdup", "lww", ["--misuse"]),
            simplecfg("max", "max"), simplecfg("min", "min"), simplecfg("gset", "gset"),
        ], "thorough": []},
        "traces": {"quick": [], "thorough": []},
    },
})

INV_LIST = ["TypeOK", "UniqueIds", "RefinesA", "EachOnce", "Converge", "ClockOK", "DupNoop", "ValidateOpOK", "MergeLaws", "Hybrid", "PROPERTY IndexSemantics"]
INV_MERKLE = ["TypeOK", "RefinesA", "MergeLaws", "Hybrid", "DupNoop", "StaleNoop", "ValidateOpOK", "PROPERTY WriteReplacesHeads"]
ENGINES.update({
    "ident": {
        "harness_engine": "ident", "serves": ["C14", "C13"],
        "doc": "MC_Ident.tla: every <<low, high, marker>> over a bounded identifier universe as one TLC state; order/density laws on the spec; each case is a test vector for Identifier::cmp/eq/between",
        "configs": {"quick": [{"cfg": "ident_q.cfg", "module": "MC_Ident.tla", "vectors": True, "invariants": ["OrderOK", "DenseOK"]}],
                    "thorough": [{"cfg": "ident_q.cfg", "module": "MC_Ident.tla", "vectors": True, "invariants": ["OrderOK", "DenseOK"]},
                                 {"cfg": "ident_t.cfg", "module": "MC_Ident.tla", "vectors": True, "invariants": ["OrderOK", "DenseOK"], "timeout": 3000}]},
        "traces": {"quick": [], "thorough": []},
    },
    "list": {
        "harness_engine": "list", "serves": ["C12", "C13", "C01", "C09", "C14", "C16", "C19"],
        "configs": {"quick": [
            {"cfg": "list_q2.cfg", "module": "MC_List.tla", "flags": ["--persist"], "invariants": INV_LIST},
            {"cfg": "list_q3.cfg", "module": "MC_List.tla", "flags": ["--persist"], "invariants": INV_LIST},
        ], "thorough": []},
        "traces": {"quick": [], "thorough": []},
    },
    "glist": {
        "harness_engine": "glist", "serves": ["C13", "C01", "C02", "C03", "C08", "C09", "C14", "C19"],
        "configs": {"quick": [
            {"cfg": "glist_q2.cfg", "module": "MC_List.tla", "flags": ["--persist", "--laws"], "invariants": INV_LIST},
        ], "thorough": []},
        "traces": {"quick": [], "thorough": []},
    },
    "merkle": {
        "harness_engine": "merkle", "serves": ["C15", "C01", "C02", "C03", "C08", "C09", "C16", "C19", "C20"],
        "configs": {"quick": [
            {"cfg": "merkle_qh.cfg", "module": "MC_Merkle.tla", "flags": ["--persist", "--laws"], "invariants": INV_MERKLE},
            {"cfg": "merkle_qa.cfg", "module": "MC_Merkle.tla", "flags": ["--persist", "--laws"], "invariants": INV_MERKLE},
        ], "thorough": []},
        "traces": {"quick": [], "thorough": []},
    },
})

PROPS = {
    "C01": {}, "C02": {"nontrivial": ["merge_in_path"]}, "C03": {"nontrivial": ["merge_in_path"]},
    "C04": {}, "C05": {}, "C06": {}, "C07": {},
    "C08": {"nontrivial": ["noncausal_delivery"],
            "rule": "every TLC-generated transition is one distinct behaviour replayed on the real code; non-trivial = the path contains a delivery that overtakes something its author had seen"},
    "C09": {},
    "C10": {"nontrivial": ["both_clocks_have_two_actors"],
            "rule": "every ordered pair of clocks of the bounded universe is one case (each evaluated through ~90 real method calls); non-trivial = both clocks mention at least two actors"},
    "C11": {}, "C12": {},
    "C13": {"nontrivial": ["local_edit_on_concurrent_state", "equal_rational_siblings", "different_depth"],
            "rule": "every TLC-generated local edit (insert_index/delete_index/insert/insert_after/insert_before) replayed on the real code and compared with the sequential-list model; plus every <<low, high, marker>> identifier case; non-trivial = local edits on states built by a concurrent history, identifier cases with equal-rational siblings or different depths"},
    "C14": {"nontrivial": ["different_depth", "equal_rational_siblings", "prefix_related"],
            "rule": "every <<low, high, marker>> over the bounded identifier universe is one case; non-trivial = different depths, equal rationals with different markers, one path a prefix of the other"},
    "C15": {}, "C16": {}, "C17": {},
    "C18": {}, "C19": {"nontrivial": ["persist_with_pending", "len_ge_3"]}, "C20": {},
}


# ---- impl -> spec: random histories of the real code validated against the spec --------------------
def tr(name, cfg, module, *args):
    return {"name": name, "cfg": cfg, "module": module, "args": list(args)}


ENGINES["orswot"]["traces"] = {
    "quick": [tr("fifo4", "trace_orswot.cfg", "Trace_Orswot.tla", "--n", 4, "--m", 3, "--histories", 60, "--steps", 90, "--maxops", 22, "--regime", "fifo", "--merge", "--snap")],
    "thorough": [tr("fifo4", "trace_orswot.cfg", "Trace_Orswot.tla", "--n", 4, "--m", 3, "--histories", 150, "--steps", 70, "--maxops", 16, "--regime", "fifo", "--merge", "--snap")],
}
ENGINES["orswot"]["trace_props"] = {"members": ["C04", "C01", "C03", "C08", "C09"], "ctx": ["C07", "C04"], "canon": ["C20"], "op": ["C07"]}
ENGINES["mvreg"]["traces"] = {
    "quick": [tr("any4", "trace_mvreg.cfg", "Trace_MVReg.tla", "--n", 4, "--m", 2, "--histories", 60, "--steps", 70, "--maxops", 12, "--regime", "any", "--merge", "--snap")],
    "thorough": [tr("any4", "trace_mvreg.cfg", "Trace_MVReg.tla", "--n", 4, "--m", 2, "--histories", 150, "--steps", 70, "--maxops", 14, "--regime", "any", "--merge", "--snap")],
}
ENGINES["mvreg"]["trace_props"] = {"values": ["C06", "C01", "C03", "C08", "C09"], "ctx": ["C07", "C06"], "canon": ["C20"], "op": ["C07", "C06"]}
for _e, _d in (("map_or", "or"), ("map_mv", "mv"), ("map_map_mv", "map_mv"), ("map_map_or", "map_or")):
    ENGINES[_e]["traces"] = {
        "quick": [tr("causal4", "trace_map_%s.cfg" % _d, "Trace_Map.tla", "--n", 4, "--m", 2, "--k", 3, "--histories", 40, "--steps", 80, "--maxops", 16, "--regime", "causal", "--merge"),
                  tr("fifo4", "trace_map_%s.cfg" % _d, "Trace_Map.tla", "--n", 4, "--m", 2, "--k", 3, "--histories", 30, "--steps", 80, "--maxops", 14, "--regime", "fifo", "--merge")],
        "thorough": [tr("causal4", "trace_map_%s.cfg" % _d, "Trace_Map.tla", "--n", 4, "--m", 2, "--k", 3, "--histories", 100, "--steps", 60, "--maxops", 12, "--regime", "causal", "--merge"),
                     tr("fifo4", "trace_map_%s.cfg" % _d, "Trace_Map.tla", "--n", 4, "--m", 2, "--k", 3, "--histories", 100, "--steps", 60, "--maxops", 12, "--regime", "fifo", "--merge")],
    }
    ENGINES[_e]["trace_props"] = {"keys": ["C05", "C01", "C03"], "topctx": ["C07", "C08"], "contents": ["C05", "C01", "C03", "C08"], "op": ["C07"]}


# ---- additional quick configs: shapes the first exhaustive configs could not reach ----------------
def orcfg(cfg, flags=("--persist", "--laws"), inv=None, **kw):
    d = {"cfg": cfg, "module": "MC_Orswot.tla", "flags": list(flags), "invariants": inv or INV_ORSWOT}
    d.update(kw)
    return d


ENGINES["orswot"]["configs"]["quick"] += [
    orcfg("orswot_q3all.cfg"),                       # add_all + rm: several pending removes with the SAME context
    orcfg("orswot_s_samectx4.cfg"),                  # the same with 4 replicas, no merge transitions (merge-law triples of replicas each holding one pending remove)
    orcfg("orswot_s_samectx.cfg"),                   # scenario: rm_all-context removes of different members overtake the adds
    orcfg("orswot_s_collapse.cfg", flags=("--persist",), inv=["TypeOK", "RefinesA", "Converge", "DupNoop", "ValidateOpOK", "CtxOK", "FreshDot"]),  # regression of fix 4c1b5ee
]
ENGINES["map_or"]["configs"]["quick"] += [mapcfg("map_or_s_samectx.cfg", 1, 2), mapcfg("map_or_s_uru.cfg", 2, 1)]
ENGINES["map_mv"]["configs"]["quick"] += [mapcfg("map_mv_s_samectx.cfg", 1, 2)]
ENGINES["map_map_mv"]["configs"]["quick"] += [mapcfg("map_map_mv_s_samectx.cfg", 1, 2)]

# ---- misuse configs (C17, second half): replicas 1 and 2 edit through ONE actor; only validate_merge is judged ----
ENGINES["orswot"]["configs"]["quick"] += [orcfg("orswot_misuse.cfg", flags=("--vm-only", "--shared-actor"), inv=["TypeOK", "ValidateMergeFlags", "ValidateMergeSym"])]
ENGINES["orswot"]["configs"]["quick"] += [orcfg("orswot_misuse3.cfg", flags=("--vm-only", "--shared-actor"), inv=["TypeOK", "ValidateMergeFlags", "ValidateMergeSym"])]
ENGINES["map_or"]["configs"]["quick"] += [{"cfg": "map_or_misuse.cfg", "module": "MC_Map.tla", "flags": ["--vm-only", "--shared-actor", "--m", "2", "--k", "2"], "invariants": ["TypeOK"]}]
ENGINES["map_or"]["configs"]["quick"] += [{"cfg": "map_or_misuse3.cfg", "module": "MC_Map.tla", "flags": ["--vm-only", "--shared-actor", "--m", "2", "--k", "2"], "invariants": ["TypeOK"]}]   # nested half of Map::validate_merge
ENGINES["map_or"]["configs"]["quick"] += [{"cfg": "map_or_misuse4.cfg", "module": "MC_Map.tla", "flags": ["--vm-only", "--shared-actor", "--m", "2", "--k", "2"], "invariants": ["TypeOK"]}]   # ... with ordered top clocks (H17-A)
ENGINES["map_mv"]["configs"]["quick"] += [{"cfg": "map_mv_misuse.cfg", "module": "MC_Map.tla", "flags": ["--vm-only", "--shared-actor", "--m", "1", "--k", "2"], "invariants": ["TypeOK"]}]

# ---- a saved (stale) snapshot merged later, for the other state-replicated types ----------------------
ENGINES["merkle"]["configs"]["quick"] += [{"cfg": "merkle_qsnap.cfg", "module": "MC_Merkle.tla", "flags": ["--persist", "--laws"], "invariants": INV_MERKLE}]
ENGINES["glist"]["configs"]["quick"] += [{"cfg": "glist_qsnap.cfg", "module": "MC_List.tla", "flags": ["--persist", "--laws"], "invariants": INV_LIST}]
ENGINES["simple"]["configs"]["quick"] += [simplecfg("gcounter_snap", "gcounter"), simplecfg("lww_snap", "lww")]
ENGINES["map_or"]["configs"]["quick"] += [mapcfg("map_or_qsnap.cfg", 2, 1)]
ENGINES["map_mv"]["configs"]["quick"] += [mapcfg("map_mv_qsnap.cfg", 1, 2)]

# ---- reset_remove on states that hold pending removes with multi-actor contexts -------------------------
ENGINES["map_mv"]["configs"]["quick"] += [mapcfg("map_mv_qreset3.cfg", 1, 1, INV_MAP, reset=True)]
ENGINES["map_mv"]["configs"]["quick"] += [mapcfg("map_mv_s_collapse.cfg", 1, 2, INV_MAP, reset=True)]   # Map half of fix 4c1b5ee (H8-A)

ENGINES["glist"]["configs"]["quick"] += [{"cfg": "glist_qdup.cfg", "module": "MC_List.tla", "flags": ["--persist", "--laws"], "invariants": INV_LIST}]
ENGINES["map_mv"]["configs"]["quick"] += [mapcfg("map_mv_s_samectx4.cfg", 1, 2)]
ENGINES["map_map_mv"]["configs"]["quick"] += [mapcfg("map_map_mv_s_inner.cfg", 1, 1)]

# ---- shapes beyond 3 replicas / depth 2 (found missing by the hard-mode seeds) -------------------------
ENGINES["orswot"]["configs"]["quick"] += [orcfg("orswot_s_4adders.cfg"),      # four actors witness one member, deliveries + merges among 4 replicas
                                          orcfg("orswot_s_samectx4m.cfg")]    # same-context removes, 4 replicas, WITH merge transitions (hybrid)
ENGINES["map_mv"]["configs"]["quick"] += [mapcfg("map_mv_s_3keys.cfg", 1, 3), mapcfg("map_mv_s_newer.cfg", 1, 2)]   # multi-key pending removes
ENGINES["list"]["configs"]["quick"] += [{"cfg": "list_s_deep.cfg", "module": "MC_List.tla", "flags": ["--persist"], "invariants": INV_LIST}]   # identifiers of depth 3
# H1 seeds: a remove that meets an existing pending entry with its own clock; re-keying of the pending table at a four-actor replica
ENGINES["orswot"]["configs"]["quick"] += [orcfg("orswot_s_samectxr.cfg"), orcfg("orswot_s_nested4.cfg")]
ENGINES["map_mv"]["configs"]["quick"] += [mapcfg("map_mv_s_samectxr.cfg", 1, 2), mapcfg("map_mv_s_nested4.cfg", 1, 3)]   # the same two shapes for Map's pending key removes
# H9 seeds: validate_op on identifiers whose outer markers are other actors' dots, out-of-causal-order deliveries
ENGINES["list"]["configs"]["quick"] += [{"cfg": "list_s_foreign.cfg", "module": "MC_List.tla", "flags": ["--vop-only"], "invariants": ["TypeOK", "ValidateOpOK"]}]
# H11: behaviours that CONTINUE after a step that is a no-op in the model (merge of a subsumed state): the small scenario
# configs orswot_s_samectx / samectxr / samectx4m and map_mv_s_samectx / samectxr / cross use VIEW noopView, and so do the
# 2-replica configs orswot_q2, mvreg_q2, glist_q2, merkle_qh, simple_gcounter (duplicates and stale merges, then more steps)
ENGINES["map_mv"]["configs"]["quick"] += [mapcfg("map_mv_s_cross.cfg", 1, 1)]   # crossed removes: a merge that must drop a key present on both sides
# MVReg value clocks over four actors (H3 seeds): siblings that agree at both ends and differ in the middle; four-way merges
ENGINES["mvreg"]["configs"]["quick"] += [{"cfg": "mvreg_s_seen4.cfg", "module": "MC_MVReg.tla", "flags": ["--persist"],
                                         "invariants": ["TypeOK", "RefinesA", "NoDuplicatePair", "Converge", "DupNoop", "StaleNoop", "FreshDot"]}]
ENGINES["ident"]["configs"]["quick"] += [{"cfg": "ident_q3.cfg", "module": "MC_Ident.tla", "vectors": True, "invariants": ["OrderOK", "DenseOK"]}]
ENGINES["ident"]["configs"]["thorough"] += [{"cfg": "ident_q3.cfg", "module": "MC_Ident.tla", "vectors": True, "invariants": ["OrderOK", "DenseOK"]}]
def _clk(cfg, **kw):
    d = {"cfg": cfg, "module": "MC_Clocks.tla", "vectors": True, "invariants": ["OrderOK", "LatticeOK", "ForgetOK", "DotOK"]}
    d.update(kw)
    return d


# four actors (H6); six actors x counters 0..1 (H8-B: paths taken only when one clock is much smaller than the other)
ENGINES["clocks"]["configs"]["quick"] += [_clk("clocks_q4.cfg"), _clk("clocks_q6.cfg")]
ENGINES["clocks"]["configs"]["thorough"] = list(ENGINES["clocks"]["configs"]["quick"]) + [_clk("clocks_t.cfg"), _clk("clocks_t5.cfg", timeout=3000)]

# ---- thorough tier = quick configs + larger exhaustive models ----------------------------------
def _t(engine, extra):
    ENGINES[engine]["configs"]["thorough"] = list(ENGINES[engine]["configs"]["quick"]) + extra


_t("orswot", [orcfg("orswot_t3.cfg", timeout=3000), orcfg("orswot_t2.cfg", timeout=3000)])
_t("mvreg", [{"cfg": "mvreg_t3.cfg", "module": "MC_MVReg.tla", "flags": ["--persist", "--laws"], "invariants": INV_MVREG, "timeout": 3000},
             {"cfg": "mvreg_t2.cfg", "module": "MC_MVReg.tla", "flags": ["--persist", "--laws"], "invariants": INV_MVREG, "timeout": 3000},
             {"cfg": "mvreg_s_4writers.cfg", "module": "MC_MVReg.tla", "flags": ["--persist", "--laws"], "invariants": INV_MVREG, "timeout": 3000}])
_t("map_or", [mapcfg("map_or_tm.cfg", 2, 2, timeout=3000)])
_t("map_mv", [mapcfg("map_mv_tm.cfg", 1, 2, timeout=3000), mapcfg("map_mv_q3k.cfg", 1, 3, timeout=3000)])   # q3k: three keys (ordered walks over both key sets)
_t("map_map_or", [mapcfg("map_map_or_t.cfg", 1, 2, timeout=3000)])
_t("map_map_mv", [mapcfg("map_map_mv_t.cfg", 1, 1, timeout=3000)])
_t("simple", [simplecfg("lww3", "lww"), simplecfg("pncounter3", "pncounter"), simplecfg("gcounter4", "gcounter"), simplecfg("gset3", "gset")])   # pncounter3: 3 replicas x 2 ops (7 k states); gcounter4: 2 replicas x 4 ops + reset_remove (71 k states); PNCounter 3 x 3 does not finish in 5 min
_t("list", [])   # 3 replicas x 4 ops and 2 x 5 ops both run to several GB of dump: thorough = quick configs + 100 longer random histories
_t("glist", [{"cfg": "glist_t3.cfg", "module": "MC_List.tla", "flags": ["--persist", "--laws"], "invariants": INV_LIST, "timeout": 3000},
             {"cfg": "glist_t2.cfg", "module": "MC_List.tla", "flags": ["--persist", "--laws"], "invariants": INV_LIST, "timeout": 3000}])
_t("merkle", [{"cfg": "merkle_th.cfg", "module": "MC_Merkle.tla", "flags": ["--persist", "--laws"], "invariants": INV_MERKLE, "timeout": 3000},
              {"cfg": "merkle_ta.cfg", "module": "MC_Merkle.tla", "flags": ["--persist", "--laws"], "invariants": INV_MERKLE, "timeout": 3000}])


# ---- more implementation traces: List, GList, MerkleReg --------------------------------------------
ENGINES["list"]["traces"] = {
    "quick": [tr("causal4", "trace_list.cfg", "Trace_List.tla", "--n", 4, "--histories", 40, "--steps", 80, "--maxops", 16, "--regime", "causal", "--deep-gap", 70)],
    "thorough": [tr("causal4", "trace_list.cfg", "Trace_List.tla", "--n", 4, "--histories", 100, "--steps", 60, "--maxops", 12, "--regime", "causal", "--deep-gap", 200)],
}
ENGINES["list"]["trace_props"] = {"seq": ["C12", "C01"], "op": ["C12", "C13", "C14"], "index": ["C13"]}
ENGINES["glist"]["traces"] = {
    "quick": [tr("any4", "trace_glist.cfg", "Trace_List.tla", "--n", 4, "--histories", 40, "--steps", 80, "--maxops", 14, "--regime", "any", "--merge", "--snap")],
    "thorough": [tr("any4", "trace_glist.cfg", "Trace_List.tla", "--n", 4, "--histories", 100, "--steps", 60, "--maxops", 10, "--regime", "any", "--merge", "--snap")],
}
ENGINES["glist"]["trace_props"] = {"seq": ["C13", "C01", "C03", "C08"], "op": ["C13", "C14"], "index": ["C13"]}
ENGINES["merkle"]["traces"] = {
    "quick": [tr("any4", "trace_merkle.cfg", "Trace_Merkle.tla", "--n", 4, "--m", 2, "--histories", 40, "--steps", 80, "--maxops", 14, "--regime", "any", "--merge", "--snap", "--wide", 40)],
    "thorough": [tr("any4", "trace_merkle.cfg", "Trace_Merkle.tla", "--n", 4, "--m", 2, "--histories", 100, "--steps", 60, "--maxops", 10, "--regime", "any", "--merge", "--snap", "--wide", 100)],
}
ENGINES["merkle"]["trace_props"] = {"heads": ["C15", "C01", "C03", "C08"], "nodeset": ["C15", "C20"]}

# ---- three nesting levels: Map<K, Map<K, Map<K, MVReg>>> ---------------------------------------------
ENGINES["map_map_map_mv"] = {
    "harness_engine": "map_map_map_mv", "serves": MAP_SERVES,
    "configs": {"quick": [mapcfg("map_map_map_mv_q.cfg", 1, 1)], "thorough": [mapcfg("map_map_map_mv_q.cfg", 1, 1)]},
    "traces": {"quick": [], "thorough": []},
}


# ---- implementation traces for the simple types ----------------------------------------------------------
def _str(kind, hist):
    return tr(kind, "trace_simple_%s.cfg" % kind, "Trace_Simple.tla", "--kind", kind, "--n", 4, "--histories", hist, "--steps", 50, "--maxops", 10, "--regime", "any", "--merge", "--snap")


ENGINES["simple"]["traces"] = {
    "quick": [_str(k, 40) for k in ("pncounter", "lww", "min")],
    "thorough": [_str(k, 80) for k in ("gcounter", "pncounter", "lww", "max", "min", "gset")],
}
ENGINES["simple"]["trace_props"] = {"read": ["C11", "C01", "C03", "C08"], "canon": ["C11", "C09"]}

# a panic of the library inside a driver call (or a call that does not return) is an observation, attributed to the
# type's semantic property and to convergence
_SEM = {"orswot": "C04", "mvreg": "C06", "map_mv": "C05", "map_or": "C05", "map_map_mv": "C05", "map_map_or": "C05", "map_map_map_mv": "C05",
        "simple": "C11", "list": "C12", "glist": "C13", "merkle": "C15", "clocks": "C10", "ident": "C14"}
for _e in ENGINES:
    ENGINES[_e]["semantic"] = _SEM.get(ENGINES[_e].get("harness_engine", _e), None)
    if "trace_props" in ENGINES[_e]:
        for _k in ("panic", "hang"):
            ENGINES[_e]["trace_props"][_k] = [ENGINES[_e]["semantic"], "C01"] + (["C13"] if _e == "list" else [])
