#!/bin/bash
# dev aid: confirm a seeded change in its scratch worktree.
# usage: confirm_seed.sh <seed dir containing patch.diff, demo.rs, demo_how.txt> <worktree> <example-name>
# - crate builds with the patch; the existing suite passes with it (the never-terminating merkle test skipped);
# - the demonstration (an example program) fails with the patch and passes without it.
S=$1; W=$2; EX=$3
cd $W || exit 2
git checkout -q -- . ; git clean -fdq examples test 2>/dev/null
cp $S/demo.rs examples/$EX.rs
export CARGO_NET_OFFLINE=true
echo "== demo WITHOUT patch"; cargo run -q --offline --example $EX > $S/confirm_demo_without.log 2>&1; echo "exit=$?" | tee -a $S/confirm_demo_without.log
git apply $S/patch.diff || { echo "patch does not apply"; exit 2; }
echo "== build WITH patch"; cargo build -q --offline 2>&1 | grep -E "^error" | head -3
echo "== demo WITH patch"; cargo run -q --offline --example $EX > $S/confirm_demo_with.log 2>&1; echo "exit=$?" | tee -a $S/confirm_demo_with.log
rm -f examples/$EX.rs
echo "== existing suite WITH patch"; timeout 1500 cargo test -q --offline -- --skip prop_op_reordering_converges > $S/confirm_suite_with.log 2>&1; echo "exit=$?" | tee -a $S/confirm_suite_with.log
grep -E "^test result" $S/confirm_suite_with.log
git checkout -q -- . ; git clean -fdq examples test 2>/dev/null
