#!/bin/sh
# TLC with a bounded, pre-sized heap: in this micro-VM an unbounded heap makes
# TLC spend its time in page faults (measured: >40 s vs 6 s for the same model).
# usage: tlc.sh <heap e.g. 3g> <tlc args...>
HEAP=${1:-3g}; shift
exec java -Xss64m -Xms$HEAP -Xmx$HEAP -XX:+UseParallelGC -XX:ParallelGCThreads=4 $TLC_JAVA_OPTS \
  -cp /opt/veriftools/tla/tla2tools.jar:/opt/veriftools/tla/CommunityModules-deps.jar tlc2.TLC "$@"
