#!/bin/bash
# dev aid: which SysMap invariants hold on the model for a given instance
# usage: probe_map.sh desc nreps nkeys maxops regime merge [invariants...]
D=$1; N=$2; K=$3; O=$4; R=$5; M=$6; shift 6
INVS=${@:-KeysOK TopCtxOK ValsOK ConvergeReads ConvergeState MergeComm MergeIdem MergeAssoc Hybrid DupNoop StaleNoop ValidateOpOK ValidateMergeOK FreshDot}
W=/verif/work/probe; mkdir -p $W
for inv in $INVS; do
cat > $W/p_$inv.cfg <<EOT
CONSTANTS
  DescName = "$D"
  NReps = $N
  NKeys = $K
  NMembers = 1
  NVals = 1
  MaxOps = $O
  Regime = "$R"
  UseMerge = $M
  UseSnap = FALSE
  UseDup = FALSE
  DumpReset = FALSE
  Reps <- MCReps
  Actors <- MCActors
  Keys <- MCKeys
  Members <- MCMembers
  MvVals <- MCVals
  ActorOf <- MCActorOf
  ValDesc <- MCDesc
INIT Init
NEXT Next
VIEW View
INVARIANTS TypeOK $inv
CHECK_DEADLOCK FALSE
EOT
( r=$(timeout 300 /verif/bin/tlc.sh 2g -workers 2 -metadir $W/md$inv -cleanup -noGenerateSpecTE -config $W/p_$inv.cfg /verif/spec/MC_Map.tla 2>&1 | grep -E "Invariant .* is violated|distinct states found, 0 states left|Error:" | head -1 | tr '\n' ' ')
echo "$D N=$N K=$K ops=$O $R merge=$M $inv: $r" | cut -c1-200 ) &
done; wait
